#!/usr/bin/env python3
"""Writes /verif/MANIFEST.json from the table below (kept in one place so the
17 entries stay consistent). Run after changing what is claimed."""
import json
import os
import subprocess

VERIF = os.path.dirname(os.path.dirname(os.path.abspath(__file__)))

BASE = ("Trusted base: the Go toolchain and runtime, pgregory.net/rapid (generation, shrinking), the harness' oracle code "
        "(reference map / models under /verif/harness/checks), tmpfs semantics of the scratch directory. The code under test is "
        "the real package tree at /repo built with -tags verif; the tag only activates named no-op points and read-only accessors. "
        "Random exploration never establishes absence of violations outside the explored cases.")

# id -> (implemented, category, technique, text, note, design_ref)
CHECKS = {
    "C01": (True, "exploration", "model-based property testing (rapid stateful histories vs. reference map, shrinking)",
            "Random call histories (Put, identical re-Put, Get, Has, GetSize, Remove, Flush, whole-store iteration) over key pools constructed to collide in "
            "bucket bits and share long prefixes, all primary types, immutable on/off, bit sizes 8..24, file-size limits from 1 byte to the default, "
            "empty and nil values; every return value is compared with an in-memory map and a full read-back plus iteration closes each case. "
            "Exploration is the right level: the property quantifies over unbounded histories and key sets, the oracle is exact and cheap, and a failure shrinks to a few calls.",
            BASE, "4 C01"),
    "C02": (True, "exploration", "model-based property testing (rapid histories with close/reopen, three recovery paths compared, metamorphic attribution)",
            "Random histories with Close/reopen at arbitrary positions (after roll-overs, removals of flushed keys, GC cycles). At each reopen the closed directory is opened three ways "
            "(bucket snapshot, snapshot deleted = rescan, snapshot of the wrong size) and every copy must read back exactly the reference map; the decoded record list of every bucket must agree across the "
            "recovery paths (read through a verif-tagged accessor), Close is called twice, and the run continues on the reopened store. A failure only counts if the same history passes with the reopen "
            "actions skipped, so defects of other properties are not blamed on recovery. Exploration with an exact oracle is the right level for a statement over all histories.",
            BASE, "4 C02"),
    "C04": (True, "exploration", "model-based property testing (rapid histories with GC actions; metamorphic relation: GC actions are no-ops for every observable result)",
            "Random histories on the multihash primary with tiny file sizes in which primary GC cycles (threshold 0..100) and index GC cycles (scan-free on/off), optionally interrupted by a call budget and "
            "resumed, run at arbitrary positions including before the first flush; all results are compared with a map that ignores GC, panics inside GC are violations, and a failing case is re-run with "
            "the GC actions skipped (it must then pass) so only GC-caused deviations are reported. Named points counted per case show which GC actions (mark, merge, truncate, unlink, header advance, "
            "relocation of >=2 records) were really exercised.",
            BASE + " An error returned by a GC cycle is not treated as a violation (the statement is about contents).", "4 C04"),
    "C05": (True, "exploration", "schedule exploration with a cooperative scheduler on named yield points + porcupine linearizability oracle; free-running variant for volume",
            "Generated concurrent histories (2-4 tasks of Put/Get/Has/GetSize/Remove, optional Flush task, keys concentrated in one or two buckets) run on the real store under a cooperative scheduler that parks tasks at the named points between the "
            "non-atomic sub-steps and follows generated schedules (single long preemption at a drawn point, PCT-style priorities, random walks); every call must return without error and the recorded history, with final reads appended, must be "
            "linearizable with respect to a per-key register (porcupine). A free-running variant with a 1 ms flusher adds volume, and a volume sub-campaign (4-8 goroutines x 10-100 rounds, each goroutine the only user of its own keys while sharing buckets and files, next to a tight-loop Flush caller; every result is compared with the owner's own model, then read-back, reopen, reopen by rescan and fsck) reaches windows that hold no named point. "
            "Schedules are controlled at the granularity of the named points; real locks are used, so every explored execution is a real execution.",
            BASE + " porcupine v1.3.0 is the linearizability checker. Interleavings finer than the named points are only reached by the free-running variant.", "4 C05"),
    "C06": (True, "exploration", "schedule exploration (cooperative scheduler incl. points inside both collectors) + porcupine linearizability oracle + directed single-preemption shapes",
            "As C05 with single writer per key, on stores prepared so that GC really marks, merges, truncates, relocates and unlinks, with tasks running primary and index GC cycles; half of the scheduled cases have the directed shape of the windows the property names "
            "(a foreground call parked inside the operation while a writer, a flush and GC cycles complete). No call may fail, no Get may return bytes never written for its key, and the history must be linearizable including the final reads. "
            "The volume sub-campaign of C05 runs here with index GC cycles every 0.1-1 ms (CID primary, full call mix) and with both collectors (multihash primary, keys only added) - the two configurations in which the recorded finding KF-C06 cannot occur.",
            BASE + " porcupine v1.3.0. Same granularity caveat as C05.", "4 C06"),
    "C07": (True, "exploration", "property testing with an independent file-format reader (fsck) as invariant oracle after every quiescent step",
            "Random histories (all primaries, GC, reopen) during which an independent re-implementation of the on-disk formats checks every clause of the invariant after each Flush, completed GC cycle, reopen and "
            "Close: live table = own rescan = snapshot; bucket -> complete, non-deleted, correctly tagged record; entries sorted, prefix-free, distinct locations; entry -> complete, non-deleted primary record "
            "with matching size, bucket bits and stored prefix; no live location on the freelist files; first-file numbers not beyond referenced files. "
            "Crash sub-campaigns restore drawn crash images of recorded workloads (and images taken while a call is parked between its sub-steps and another task's Flush has completed), opens them and checks the same invariant on the recovered store; one history in six comes from the C09 generator (re-bucketing), and the volume cases of C05/C06 (free-running concurrent use) are judged by the fsck of the directory after Close.",
            BASE + " The fsck reader is written from the format description and shares no code with the repository; it is itself trusted.", "4 C07"),
    "C10": (True, "exploration", "property testing over generated legacy stores (own encoder of the legacy formats) + crash-point enumeration inside the conversion",
            "The harness writes version-2 single-file indexes, unversioned single-file primaries and freelists with its own encoder from generated map histories (superseded lists, pending/applied/lost freelist entries, optionally a cut primary so that "
            "entries lose their data), converts them through OpenStore under target file sizes from 1 byte to larger than the files, and compares the result with the reference map, with an independent fsck, with the legacy freelist (no record it names may be live in the converted primary) and with a generated suffix. "
            "The conversion runs under the crash recorder; every captured or torn image must open again and show the same contents.",
            BASE + " The legacy formats are re-implemented from the upgrade code's reader side and the checked-in fixtures; crash enumeration is per generated store.", "4 C10"),
    "C11": (True, "exploration", "property testing with validity predicates over generated histories (kill phase + GC cycles to a fixed point)",
            "Random histories followed by a generated kill phase (remove/overwrite every key in non-current primary files, rewrite every bucket referring into non-current index files, flush) and rounds of "
            "[primary GC, index GC, flush]; checked: a byte-identical fixed point is reached within a generous bound derived from the cycle structure, every fully dead primary file and every unreferenced index file "
            "is empty or gone there, after a close/reopen and three more cycles no empty non-current file is the header's first file, no non-current file is still low-use by the threshold, StorageSize never grows inside a cycle and grows at the following flush by at most the outstanding (relocated) work. "
            "The index cycles of the closure scan for unreferenced files every other time, never or always (drawn per case). A crash sub-campaign runs the same closure on stores recovered from crash images (orphan records, lost freelist entries, torn tails). Liveness is checked in this bounded form, which is what generated-input search can give.",
            BASE + " Thresholds are fixed per case; threshold 0 (every file permanently low-use) is excluded from the fixed-point clause.", "4 C11"),
    "C03": (True, "fault_enumeration", "crash-point enumeration over generated workloads (named points capture every intermediate directory image; torn-write synthesis; durability-model oracle; post-recovery model-based history; second crash after the recovered store's next flush)",
            "Generated workloads (puts, overwrites, removals, flushes, iteration, GC cycles with and without unflushed data and budgets, close/reopen) run with a handler on ~140 named points that snapshots the directory before every file-system step; "
            "consecutive images are diffed into single steps, and every byte prefix of every written region is synthesised as a torn state (a self-check counts steps that have no point in between as hook_gaps, so the enumeration is complete with respect to the code that ran). "
            "Each crash image is restored and opened; the open must succeed, every key must read a value it legitimately had between the last completed Flush/Close and the crash instant (for every instant the same bytes were on disk), never foreign bytes, and a generated suffix "
            "with GC and reopen must then behave like the map model. Quick draws a few states per workload; thorough enumerates all states of every workload, and a sample of second-level crashes inside the recovery open. A further sub-campaign produces images that sequential workloads never reach, in four shapes: one call parked between its sub-steps while a Flush of another task completes; a GC cycle parked inside the cycle, a Flush suspended inside the flush pipeline and the GC cycle completing behind it; a Flush suspended while write calls complete, then the flush completing and the process dying before the next flush; two overlapping Flush calls (the first suspended twice, the second running in between) with write calls completing inside them; a Flush call that returns while another flush is suspended behind its pool swaps (image taken at the moment of its return).",
            BASE + " Process-crash model (completed system calls are durable); positional writes of <=4 bytes are atomic. Enumeration is exhaustive per generated workload, not over all workloads.", "4 C03"),
    "C08": (True, "exploration", "small-scope exhaustive enumeration + rapid random sequences against a per-operation invariant oracle",
            "index.Index over the in-memory primary, driven under the caller contract the store keeps. Every ordered insertion of up to 5/6 keys of the universe {bucket}x{0,1}^3 followed by every single re-point, removal or re-insertion "
            "under three flush placements, all insertions of up to 3/4 keys over a 3-symbol alphabet, plus random longer sequences over larger alphabets, key lengths and bit sizes (with an operation that pushes the bucket out of the in-memory pools so that it is read from disk) bulk buckets of 150-450 keys read from disk, and a boundary part in which a drawn flush writes its record list within the last four bytes below the index file-size limit (limit chosen from a measuring pass) before the bucket is read from disk; after EVERY operation each present key must resolve "
            "to its latest location, absent keys to nothing or to a present key's location, the decoded list must be sorted, prefix-free, one entry per key with each stored prefix a prefix of its owner, and Update/Remove may touch only the addressed entry. "
            "Exhaustive within the stated bound, exploration beyond it.",
            BASE + " The decoded list is read through a verif-tagged accessor (the public iterator only sees flushed buckets).", "4 C08"),
    "C09": (True, "exploration", "model-based property testing over configurations (rapid histories with re-bucketing and refused opens; all 289 bit-size pairs in the thorough tier)",
            "Random histories at one index bit size, clean close, reopen at another (translation), full read-back and iteration against the reference map, more history under the new size, repeated; refused opens with another index / primary "
            "file-size limit must return ErrIndexWrongFileSize / ErrPrimaryWrongFileSize and leave the contents readable under the original settings. The crash clause (an interrupted re-bucketing never opens with fewer keys) is decided by crash-point enumeration inside the translation (see evidence keys crash_*): every image is opened with the new and with the old bit size, and - when it reads right with the old size - used further (update, removal, insertion), closed and re-bucketed again, and compared with the model.",
            BASE, "4 C09"),
    "C12": (True, "exploration", "schedule exploration of the back-pressure protocol with the real flusher goroutine adopted by the cooperative scheduler; bounded-liveness closure judged by goroutine state",
            "Writers on a store with BurstRate(0) and a pinned flush rate always enter the waiting path; the scheduler interleaves them with the adopted flusher goroutine and explicit Flush tasks at the points measure / decide / register / signal / wait and inside Flush. "
            "After the generated schedule everything runs freely and three more Flush calls complete; a writer that is then still in the channel receive of the wait while the flusher idles in its select and no flush is in progress can never be released - that state, not elapsed time, is the verdict. "
            "A free-running sub-campaign (rounds of simultaneously released writers) reaches windows without a named point, and a single-writer part (burst rates up to 4000, no Flush issued by the harness) requires each waiting call to be released by the flush it asked for itself (with periodic ticks of 20 us..1 ms meeting the writer's signals; in a quarter of the cases Store.Start is only called once the first call waits); a failed-flush part makes one explicit Flush fail on a stray file while a writer waits and requires the next successful Flush to release it. Liveness can only be checked in this bounded form by generated-input search.",
            BASE + " Goroutine states are read from runtime.Stack. A run that does not reach a verdict state within 8 s is counted as inconclusive, never as a violation.", "4 C12"),
    "C13": (True, "exploration", "property testing with multiset accounting over histories; concurrent exploration of the freelist package with injected delays at named points",
            "Sequential histories: the multiset of locations that stop being current (overwrite, removal, GC relocation; observed through the public index lookup around every call) must equal the multiset of locations that reach GC "
            "(the .gc batch read at the named point just before it is dropped) plus what is left in .free/.free.gc after a final flush - each exactly once, nothing else, never a current location, and every delivered record is dead after its cycle. "
            "Bulk histories put 350-800 superseded locations into one hand-over. Concurrent histories on the freelist alone: every Put is delivered exactly once across hand-overs and the final file while Flush/ToGC interleave. "
            "Crash clause: entries that were in .free/.free.gc when the process died (crash images inside the hand-over) name dead records after recovery and two GC cycles.",
            BASE + " The concurrent part is free-running with generated delays at the hook points, so its schedules are explored, not enumerated.", "4 C13"),
    "C14": (True, "exploration", "small-scope exhaustive enumeration of call sequences + rapid random sequences + concurrent stress, against a handle model",
            "All call sequences (Open/Close/Remove/Clear/SetCacheSize over 2 names, capacities 0..2) to depth 5/6, random sequences to depth 60, and a concurrent stress run (with an eviction callback in half of the runs, and a descriptor-bound check right after every resize once nothing is lent out); after every call each lent handle must still be usable, "
            "Close of a lent handle must succeed, descriptors on the test files (/proc/self/fd) must not exceed capacity + lent handles, and nothing may stay open at the end.",
            BASE + " Descriptor accounting reads /proc/self/fd (Linux).", "4 C14"),
    "C15": (True, "exploration", "model-based property testing of the blockstore adapter (rapid call sequences vs. map keyed by multihash + contract clauses)",
            "Random sequences of Put/PutMany/Get/Has/GetSize/DeleteBlock/HashOnRead with live and cancelled contexts over blocks of many sizes, CID versions, codecs and hash functions (truncated digests and multihashes longer than 64 bytes included), alias CIDs of one multihash, close/reopen of the blockstore between calls, and deliberately "
            "mismatching (data, CID) pairs; each result is compared with a map keyed by multihash and with the contract clauses (not-found error class, ErrWrongHash exactly when enabled and mismatching, no effect of cancelled calls).",
            BASE, "4 C15"),
    "C16": (True, "exploration", "generated concurrent programs executed under the Go race detector (free-running; reports parsed into signatures)",
            "Random concurrent programs (3-8 goroutines looping over the whole public API incl. all storage-size queries, file-cache resizing, iteration and explicit primary GC) on a started store with sub-millisecond to millisecond sync and GC intervals and tiny files, "
            "built with -race, with SyncOnFlush and rate-limiter back-pressure as drawn dimensions and, in two of seven programs, an environment fault (stray file or directory at the next file name) that makes a background flush fail so that the sticky-error paths run concurrently; no scheduler and no point handler are installed because they would add happens-before edges. Every race report is a violation, identified by the innermost module frames of the two accesses.",
            BASE + " The Go race detector is the oracle: sound for the executions that happened, silent about code that did not run concurrently. Index GC cycles are only run by the store's own collector (the verif wrapper is not used here).", "4 C16"),
    "C17": (True, "exploration", "schedule exploration with adopted background goroutines + resource census (goroutines by stack, /proc/self/fd, directory hashes)",
            "Five generated situations: Close issued while a collector or the flusher is held by the cooperative scheduler at a drawn point inside a cycle (the store's own goroutines are adopted as tasks at their first named point), Close after free-running activity with 1 ms timers, "
            "failing opens of existing stores (size mismatches, size mismatches together with another bit size so that the open fails inside the index translation, a missing index file during translation, garbage/empty headers, unknown primary type), repeated open/close cycles, and Close with an injected environment fault (stray file or directory that makes the flush or the bucket snapshot inside Close fail: Close may return the error but must release everything). Right after Close (or the failed open) returns there must be no goroutine with a module frame, no descriptor into the store directory, "
            "and the directory must stay byte-identical across a pause and after all held goroutines were released; second Close nil; the reopened directory holds exactly what the foreground calls had stored, also after one GC cycle of each kind.",
            BASE + " Goroutines are identified by module frames in runtime.Stack, descriptors by /proc/self/fd (Linux).", "4 C17"),
}

NOT_YET = "check not implemented yet in this revision of /verif (work in progress, see DESIGN.md section 8)"


def main():
    props = [json.loads(l) for l in open(os.path.join(VERIF, "properties.jsonl"))]
    try:
        commits = subprocess.run(["git", "-C", "/repo", "log", "--format=%H %s"], capture_output=True, text=True).stdout.splitlines()
        hook_commits = [c.split()[0] for c in commits if c.split(" ", 1)[1].startswith("verif:")]
    except Exception:
        hook_commits = []
    checks, na = [], []
    for p in props:
        pid = p["id"]
        ent = CHECKS.get(pid)
        if not ent or not ent[0]:
            na.append(dict(property_id=pid, reason=NOT_YET if not ent else ent[3]))
            continue
        _, cat, tech, text, note, ref = ent
        checks.append(dict(
            property_id=pid,
            quick_cmd="./check %s quick" % pid,
            thorough_cmd="./check %s thorough" % pid,
            evidence_file="/verif/evidence/%s.json" % pid,
            replay_cmd_template="./check %s --replay {path}" % pid,
            engine="harness",
            level_claimed=dict(category=cat, text=text, design_ref="DESIGN.md section " + ref),
            level_note=note,
            technique=tech,
        ))
    man = dict(
        version=1,
        setup_cmd="./bin/setup.sh",
        hooks=dict(
            guard="verif",
            enable="go build tag: checks build /repo with `go test -c -tags verif` through a replace directive (harness/go.mod)",
            baseline_off_cmd="cd /repo && go test -mod=mod -json -vet=off -count=1 -timeout 25m ./...",
            source_commits=list(reversed(hook_commits)),
            add_only=True,
        ),
        engines=[dict(name="harness", path="/verif/harness", serves_properties=[c["property_id"] for c in checks],
                      kind_free_text="Go test binary (rapid property tests, exhaustive small-scope enumerations, crash-image and schedule exploration) built per invocation against /repo; driven by bin/driver.py")],
        checks=checks,
        not_applicable=na,
        notes="All checks: ./check <ID> quick|thorough, cwd=/verif, env VERIF_SEED. Known findings: known_findings.json. See DESIGN.md.",
    )
    with open(os.path.join(VERIF, "MANIFEST.json"), "w") as f:
        json.dump(man, f, indent=1)
        f.write("\n")
    print("claimed:", [c["property_id"] for c in checks])
    print("not claimed:", [n["property_id"] for n in na])


if __name__ == "__main__":
    main()
