#!/usr/bin/env python3
"""Writes sensitivity/RESULTS.md from sensitivity/results.jsonl (own mutants)
and seeded/*/meta.json (independently written changes)."""
import glob
import json
import os
import sys

VERIF = os.path.dirname(os.path.dirname(os.path.abspath(__file__)))
sys.path.insert(0, os.path.join(VERIF, "tools"))
from mutant_defs import MUTANTS  # noqa: E402

NOTES = {
    ("c01-findkeypos-ge", "C01"): "equivalent under the stated precondition (a stored prefix never equals a whole different key when no digest is a prefix of another)",
    ("c01-findkeypos-ge", "C08"): "equivalent under the stated precondition (see C01)",
    ("c02-rescan-keeps-deleted", "C02"): "equivalent: a deleted record is always followed by the newer record of its bucket, which overrides it during the scan",
    ("c03-gc-deletes-gcfile-first", "C03"): "not a C03 violation (a lost freelist entry is a space leak); caught by C13",
    ("c03-commit-index-before-primary", "C03"): "equivalent since fix 2ca8007: Index.Flush itself flushes the primary before it writes any index record, so the order inside commit no longer matters",
    ("c03-freelist-mark-is-pool-length", "C03"): "equivalent since fix a3cd3de: Flush calls are serialized, so no other flush can empty the freelist pool between a commit's mark and its FlushTo, and the pool length at the mark equals the mark (it was caught - overlapping-flushes shape - while flushes could still overlap)",
    ("c04-busy-ignores-position", "C04"): "equivalent for the listed properties: the change only makes index GC more conservative (every record in a file that the record's bucket still points into counts as busy), so nothing live is ever marked; a file that no bucket refers into is still reaped in full, which is all C11 asks",
    ("c03-buckets-before-write", "C05"): "equivalent: the just-flushed pool is consulted before the disk until the next flush",
    ("c03-snapshot-kept-after-load", "C02"): "not a C02 violation (a clean Close rewrites the snapshot); caught by C03",
    ("c06-igc-touches-current-file", "C04"): "equivalent sequentially: the records of the latest flush are always the newest of their buckets, so the tail of the current file is busy; caught by C06 under a two-preemption schedule",
}


def main():
    rows = {}
    path = os.path.join(VERIF, "sensitivity", "results.jsonl")
    if os.path.exists(path):
        for l in open(path):
            r = json.loads(l)
            rows[(r["mutant"], r["property"])] = r  # last result wins
    out = ["# Sensitivity of the checks", "",
           "## Own mutants (tools/mutant_defs.py, applied to a scratch clone, quick tier)", "",
           "| mutant | change | check | caught | signature / note |", "|---|---|---|---|---|"]
    caught = missed = equiv = 0
    for m in MUTANTS:
        for p in m["props"]:
            r = rows.get((m["id"], p))
            if not r:
                out.append("| %s | %s | %s | not run | |" % (m["id"], m["desc"], p))
                continue
            note = NOTES.get((m["id"], p), "")
            if r["caught"]:
                caught += 1
                sig = (r["signatures"][0].replace("signature: ", "") if r["signatures"] else "")[:90]
                out.append("| %s | %s | %s | yes (%.0f s) | `%s` |" % (m["id"], m["desc"], p, r["wall_s"], sig.replace("|", "\\|")))
            else:
                if note:
                    equiv += 1
                else:
                    missed += 1
                out.append("| %s | %s | %s | **no** (exit %s) | %s |" % (m["id"], m["desc"], p, r["exit"], note or "MISSED"))
    out += ["", "caught: %d, not caught but equivalent / outside that property (see note): %d, missed: %d" % (caught, equiv, missed), ""]
    out += ["## Changes written independently by sub-agents (seeded/*)", "",
            "Each sub-agent saw only the text of one property and a scratch worktree. A change was kept after the patch applied to a clean clone, the existing suite passed with it, and the demonstration failed with it and passed without it.", "",
            "| id | property | needs to manifest | checks run -> verdict |", "|---|---|---|---|"]
    for mp in sorted(glob.glob(os.path.join(VERIF, "seeded", "*", "meta.json"))):
        m = json.load(open(mp))
        verdicts = "; ".join("%s: %s" % (k, "caught" if v["caught"] else "not caught (exit %s)" % v["exit"]) for k, v in m["checks"].items())
        out.append("| %s | %s | %s | %s |" % (m["id"], m["property"], m.get("needs_to_manifest", ""), verdicts))
    open(os.path.join(VERIF, "sensitivity", "RESULTS.md"), "w").write("\n".join(out) + "\n")
    print("caught", caught, "equivalent/other", equiv, "missed", missed)


if __name__ == "__main__":
    main()
