#!/bin/bash
# usage: tools/try_patch.sh <patch.diff> <check> [tier]   - runs one check against a scratch clone of /repo with the patch applied
set -e
P=$(realpath "$1"); C=$2; T=${3:-quick}
S=$(mktemp -d /dev/shm/vftry-XXXX)
trap 'rm -rf "$S"' EXIT
git clone -q --no-hardlinks /repo "$S/repo"
git -C "$S/repo" apply "$P"
cd /verif
VERIF_REPO="$S/repo" VERIF_EVIDENCE_DIR="$S/ev" VERIF_REPLAY_DIR="$S/replays" ./check "$C" "$T" 2>&1 | grep -v "^KNOWN-FINDING" | tail -${TAILN:-6} | cut -c1-700 || true
