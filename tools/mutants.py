#!/usr/bin/env python3
"""Sensitivity harness: applies one small semantic change at a time to a
scratch copy of /repo (never to /repo itself), runs the named check's quick
tier against the copy and reports whether the check caught it.

usage: tools/mutants.py [-k substring] [--tier quick] [--list]
Results are appended to /verif/sensitivity/results.jsonl.
"""
import json
import os
import shutil
import subprocess
import sys
import tempfile
import time

VERIF = os.path.dirname(os.path.dirname(os.path.abspath(__file__)))
sys.path.insert(0, os.path.join(VERIF, "tools"))
from mutant_defs import MUTANTS  # noqa: E402


def main():
    args = sys.argv[1:]
    sel = None
    tier = "quick"
    if "-k" in args:
        sel = args[args.index("-k") + 1]
    if "--tier" in args:
        tier = args[args.index("--tier") + 1]
    sl = None
    if "--slice" in args:
        a, b = args[args.index("--slice") + 1].split("/")
        sl = (int(a), int(b))
    if "--list" in args:
        for m in MUTANTS:
            print(m["id"], m["props"], m["desc"])
        return
    base = "/dev/shm" if os.path.isdir("/dev/shm") else tempfile.gettempdir()
    os.makedirs(os.path.join(VERIF, "sensitivity"), exist_ok=True)
    out = open(os.path.join(VERIF, "sensitivity", "results.jsonl"), "a")
    for mi, m in enumerate(MUTANTS):
        if sel and sel not in m["id"] and sel not in ",".join(m["props"]):
            continue
        if sl and mi % sl[1] != sl[0]:
            continue
        scratch = tempfile.mkdtemp(prefix="vfmut-", dir=base)
        try:
            repo = os.path.join(scratch, "repo")
            subprocess.run(["git", "clone", "-q", "--no-hardlinks", "/repo", repo], check=True)
            ok = True
            for f, old, new in m["edits"]:
                p = os.path.join(repo, f)
                src = open(p).read()
                if src.count(old) != 1:
                    print("MUTANT %s: anchor occurs %d times in %s" % (m["id"], src.count(old), f))
                    ok = False
                    break
                open(p, "w").write(src.replace(old, new))
            if not ok:
                continue
            env = dict(os.environ, GOFLAGS="-mod=mod", GOPROXY="off")
            b = subprocess.run(["go", "build", "./..."], cwd=repo, env=env, capture_output=True, text=True)
            if b.returncode != 0:
                print("MUTANT %s does not compile: %s" % (m["id"], b.stderr[-500:]))
                continue
            for prop in m["props"]:
                env2 = dict(os.environ, VERIF_REPO=repo, VERIF_EVIDENCE_DIR=os.path.join(scratch, "ev"),
                            VERIF_REPLAY_DIR=os.path.join(scratch, "replays"))
                t0 = time.time()
                r = subprocess.run([os.path.join(VERIF, "check"), prop, tier], cwd=VERIF, env=env2, capture_output=True, text=True)
                sig = [l.strip() for l in r.stdout.splitlines() if l.strip().startswith("signature:")]
                rec = dict(mutant=m["id"], desc=m["desc"], property=prop, tier=tier, exit=r.returncode,
                           caught=r.returncode == 1, wall_s=round(time.time() - t0, 1), signatures=sorted(set(sig))[:3])
                print(json.dumps(rec))
                if r.returncode == 2:
                    print(r.stdout[-1500:])
                out.write(json.dumps(rec) + "\n")
                out.flush()
        finally:
            shutil.rmtree(scratch, ignore_errors=True)


if __name__ == "__main__":
    main()
