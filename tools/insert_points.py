#!/usr/bin/env python3
"""One-off tool that was used to add the vhook.Point call sites to /repo.

Every insertion is add-only: text is inserted before or after an anchor that
must occur exactly once in the file; no existing line is changed. The result
is committed in /repo; this script is kept for the record only.
"""
import re
import sys

REPO = sys.argv[1] if len(sys.argv) > 1 else "/repo"
IMPORT = '\t"github.com/ipld/go-storethehash/store/vhook"\n'

# (file, anchor, where, text). anchor may span lines; nth picks the n-th
# occurrence (1-based) when the anchor is not unique.
P = []


def add(f, anchor, where, text, nth=None):
    P.append((f, anchor, where, text, nth))


S = "store/store.go"
add(S, '\t"github.com/ipld/go-storethehash/store/types"\n', "after", IMPORT)
# translateIndex
add(S, '\t\treturn fmt.Errorf("error closing new index: %w", err)\n\t}\n', "after", '\tvhook.Point("translate.newClosed")\n')
add(S, '\t\treturn fmt.Errorf("error closing old index: %w", err)\n\t}\n', "after", '\tvhook.Point("translate.oldClosed")\n')
add(S, '\tif err = index.MoveFiles(indexPath, oldTmp); err != nil {\n', "before", '\tvhook.Point("translate.oldTmpMade")\n')
add(S, '\t// Move the new index file from the temp directory to the index directory.\n', "before", '\tvhook.Point("translate.oldMoved")\n')
add(S, '\t// Remove the old index files.\n', "before", '\tvhook.Point("translate.newMoved")\n')
add(S, '\tlog.Infof("Finished translating index to %d bit prefix", indexSizeBits)\n', "before", '\tvhook.Point("translate.oldRemoved")\n')
# run
add(S, '\t\tcase <-s.flushNow:\n', "after", '\t\t\tvhook.Point("run.flushNow")\n')
add(S, '\t\t\t\ts.setErr(err)\n\t\t\t}\n', "after", '\t\t\tvhook.Point("run.flushed")\n')
# Close
add(S, '\trunning := s.running\n\ts.running = false\n\ts.stateLk.Unlock()\n', "after", '\tvhook.Point("close.begin")\n')
add(S, '\tcerr := s.Err()\n', "before", '\tvhook.Point("close.stopped")\n')
add(S, '\tif err = s.index.Primary.Close(); err != nil {\n', "before", '\tvhook.Point("close.indexClosed")\n')
add(S, '\ts.fileCache.Clear()\n\tif err = s.freelist.Close(); err != nil {\n', "before", '\tvhook.Point("close.primaryClosed")\n')
add(S, '\treturn cerr\n}\n\nfunc (s *Store) Get(', "before", '\tvhook.Point("close.freelistClosed")\n')
# Get
add(S, '\tfileOffset, found, err := s.index.Get(indexKey)\n', "after", '\tvhook.Point("get.indexGot")\n')
# Put
add(S, '\tprevOffset, found, err := s.index.Get(indexKey)\n', "after", '\tvhook.Point("put.indexGot")\n')
add(S, '\t// We are ready now to start putting/updating the value in the key.\n', "before", '\tvhook.Point("put.primaryChecked")\n')
add(S, '\t// If the key being set is not found, or the stored key is not equal\n', "before", '\tvhook.Point("put.primaryPut")\n')
add(S, '\t\t// Add outdated data in primary storage to freelist\n\t\tif err = s.freelist.Put(prevOffset); err != nil {\n', "before", '\t\tvhook.Point("put.indexUpdated")\n')
add(S, '\ts.flushTick()\n\n\treturn nil\n}\n', "before", '\tvhook.Point("put.indexed")\n')
# Remove
add(S, '\toffset, found, err := s.index.Get(indexKey)\n', "after", '\tvhook.Point("remove.indexGot")\n')
add(S, '\tremoved, err := s.index.Remove(storedKey)\n', "before", '\tvhook.Point("remove.primaryChecked")\n')
add(S, '\tif removed {\n\t\t// Mark slot in freelist\n', "before", '\tvhook.Point("remove.indexRemoved")\n')
add(S, '\ts.flushTick()\n\treturn removed, nil\n', "before", '\tvhook.Point("remove.done")\n')
# flushTick
add(S, '\tif flushRate == 0 {\n\t\t// Do not know the flush rate yet.\n', "before", '\tvhook.Point("tick.measured")\n')
add(S, '\t\t// Get a channel that broadcasts next flush completion.\n', "before", '\t\tvhook.Point("tick.decided")\n')
add(S, '\t\t// Trigger flush now, non-blocking.\n', "before", '\t\tvhook.Point("tick.registered")\n')
add(S, '\t\t// Wait for next flush to complete.\n', "before", '\t\tvhook.Point("tick.signalled")\n')
add(S, '\t\t<-flushNotice\n', "after", '\t\tvhook.Point("tick.released")\n')
# commit
add(S, '\tindexWork, err := s.index.Flush()\n', "before", '\tvhook.Point("commit.primaryFlushed")\n')
add(S, '\tflWork, err := s.freelist.Flush()\n', "before", '\tvhook.Point("commit.indexFlushed")\n')
add(S, '\tif s.syncOnFlush {\n', "before", '\tvhook.Point("commit.freelistFlushed")\n')
# Flush
add(S, '\tif !s.outstandingWork() {\n', "before", '\tvhook.Point("flush.stamped")\n')
add(S, '\tif !s.outstandingWork() {\n', "after", '\t\tvhook.Point("flush.noWork")\n')
add(S, '\tvar rate float64\n\tif work > types.Work(s.burstRate) {\n', "before", '\tvhook.Point("flush.committed")\n')
add(S, '\tif rate != 0 {\n\t\ts.flushRate = rate\n\t}\n', "after", '\ts.flushRate = vhook.Rate(s.flushRate)\n')
add(S, '\t\ts.flushNotice = nil\n\t}\n\ts.rateLk.Unlock()\n', "after", '\tvhook.Point("flush.noticed")\n')
# Has / GetSize
add(S, '\tif !found || err != nil {\n\t\treturn false, err\n\t}\n', "before", '\tvhook.Point("has.indexGot")\n')
add(S, '\tif err != nil {\n\t\treturn 0, false, err\n\t}\n\tif !found {\n\t\treturn 0, false, nil\n', "before", '\tvhook.Point("getsize.indexGot")\n')

I = "store/index/index.go"
add(I, '\t"github.com/ipld/go-storethehash/store/types"\n', "after", IMPORT)
# Open: new header
add(I, '\t\tif err = writeHeader(headerPath, header); err != nil {\n\t\t\treturn nil, err\n\t\t}\n\t} else {\n\t\texistingHeader = true\n', "before", '\t\tvhook.Point("index.open.header")\n')
add(I, '\tfile, err = openFileAppend(indexFileName(path, lastIndexNum))\n', "before", '\tvhook.Point("index.open.file")\n')
# scan truncation
add(I, '\t\t\t\te := os.Truncate(indexPath, pos)\n', "before", '\t\t\t\tvhook.Point("index.scan.truncate")\n')
add(I, '\t\t\t\te := os.Truncate(indexPath, pos-sizePrefixSize)\n', "before", '\t\t\t\tvhook.Point("index.scan.truncate")\n')
# flushBucket rollover
add(I, '\t\tfile, err := openFileAppend(indexPath)\n\t\tif err != nil {\n\t\t\treturn types.Block{}, 0, fmt.Errorf("cannot open new index file %s: %w", indexPath, err)\n', "before", '\t\tvhook.Point("index.roll.create")\n')
add(I, '\t\tif err = idx.writer.Flush(); err != nil {\n\t\t\treturn types.Block{}, 0, fmt.Errorf("cannot write to index file %s: %w", idx.file.Name(), err)\n', "before", '\t\tvhook.Point("index.roll.flushOld")\n')
# Get
add(I, '\tcached, indexOffset, fileNum, err := idx.readBucketInfo(bucket)\n\tidx.bucketLk.RUnlock()\n', "after", '\tvhook.Point("index.get.unlocked")\n')
# Flush
add(I, '\tidx.outstandingWork = 0\n\tidx.bucketLk.Unlock()\n', "after", '\tvhook.Point("index.flush.swapped")\n')
add(I, '\terr := idx.writer.Flush()\n\tif err != nil {\n\t\treturn 0, fmt.Errorf("cannot flush data to index file %s: %w", idx.file.Name(), err)\n\t}\n', "before", '\tvhook.Point("index.flush.write")\n')
add(I, '\terr := idx.writer.Flush()\n\tif err != nil {\n\t\treturn 0, fmt.Errorf("cannot flush data to index file %s: %w", idx.file.Name(), err)\n\t}\n', "after", '\tvhook.Point("index.flush.written")\n')
# Close
add(I, '\t\t_, err = idx.Flush()\n\t\tif err != nil {\n\t\t\tidx.file.Close()\n', "before", '\t\tvhook.Point("index.close.gcStopped")\n')
add(I, '\t\terr = idx.saveBucketState()\n', "before", '\t\tvhook.Point("index.close.fileClosed")\n')
# saveBucketState
add(I, '\tfile, err := os.Create(bucketsFileNameTemp)\n', "before", '\tvhook.Point("index.save.create")\n')
add(I, '\tif err = writer.Flush(); err != nil {\n\t\treturn err\n\t}\n\tif err = file.Close(); err != nil {\n', "before", '\tvhook.Point("index.save.write")\n')
add(I, '\t// Only create the file after saving all buckets.\n', "before", '\tvhook.Point("index.save.rename")\n')
# loadBucketState
add(I, '\t\tif e = os.Remove(bucketsFileName); e != nil {\n', "before", '\t\tvhook.Point("index.load.remove")\n')
# remapIndex
add(I, '\t\t// Update the header to indicate remapping is completed.\n\t\theader.PrimaryFileSize = mp.FileSize()\n\t\treturn nil, writeHeader(headerPath, header)\n', "before", '\t\tvhook.Point("remap.header0")\n')
add(I, '\t\terr = copyFile(fileName, tmpName)\n', "before", '\t\tvhook.Point("remap.copy")\n')
add(I, '\t\t\tif _, err = file.WriteAt(data, int64(localPos)); err != nil {\n', "before", '\t\t\tvhook.Point("remap.write")\n')
add(I, '\t\tdoneFile, err := os.Create(doneName)\n', "before", '\t\tvhook.Point("remap.marker")\n')
add(I, '\t\tif err = os.Rename(tmpName, fileName); err != nil {\n', "before", '\t\tvhook.Point("remap.rename")\n')
add(I, '\t// Update the header to indicate remapping is completed.\n\theader.PrimaryFileSize = mp.FileSize()\n\tif err = writeHeader(headerPath, header); err != nil {\n', "before", '\tvhook.Point("remap.header")\n')
add(I, '\t\tif err = os.Remove(doneName); err != nil {\n', "before", '\t\tvhook.Point("remap.unmark")\n')
# MoveFiles
add(I, '\t\tif err = os.Rename(fileName, newPath); err != nil {\n', "before", '\t\tvhook.Point("move.file")\n')
add(I, '\tif err = os.Rename(headerPath, newPath); err != nil {\n', "before", '\tvhook.Point("move.header")\n')
add(I, '\t\tif err = os.Rename(bucketsPath, newPath); err != nil {\n', "before", '\t\tvhook.Point("move.buckets")\n')

G = "store/index/gc.go"
add(G, '\t"github.com/ipld/go-storethehash/store/types"\n', "after", IMPORT)
add(G, '\tvar emptied int\n\tvar reclaimed int64\n\tvar err error\n\n\tif scanFree {\n', "before", '\tvhook.Point("igc.begin")\n')
add(G, '\t\tstale, err := index.reapIndexRecords(ctx, fileNum, indexPath)\n', "before", '\t\tvhook.Point("igc.file")\n')
add(G, '\t\t\t\terr = writeHeader(index.headerPath, header)\n', "before", '\t\t\t\tvhook.Point("igc.header")\n')
add(G, '\t\t\t\terr = os.Remove(indexPath)\n', "before", '\t\t\t\tvhook.Point("igc.unlink")\n')
add(G, '\tvar emptied int\n\tvar reclaimed int64\n\tbasePath := index.basePath\n', "before", '\tvhook.Point("igc.free.scanned")\n')
add(G, '\t\t\tif err = writeHeader(index.headerPath, header); err != nil {\n', "before", '\t\t\tvhook.Point("igc.free.header")\n')
add(G, '\t\t\tif err = os.Remove(indexPath); err != nil {\n', "before", '\t\t\tvhook.Point("igc.free.unlink")\n')
add(G, '\t\terr = os.Truncate(indexPath, 0)\n', "before", '\t\tvhook.Point("igc.free.truncate")\n')
add(G, '\t\t\t\t\tbinary.LittleEndian.PutUint32(sizeBuf, freeAtSize|deletedBit)\n\t\t\t\t\t_, err = file.WriteAt(sizeBuf, freeAt)\n', "before", '\t\t\t\t\tvhook.Point("igc.reap.merge")\n')
add(G, '\t\tif inUse {\n\t\t\t// Record is in use.\n', "before", '\t\tvhook.Point("igc.reap.busyChecked")\n')
add(G, '\t\t\tbinary.LittleEndian.PutUint32(sizeBuf, freeAtSize|deletedBit)\n\t\t\tif _, err = file.WriteAt(sizeBuf, freeAt); err != nil {\n', "before", '\t\t\tvhook.Point("igc.reap.mark")\n')
add(G, '\t\tif err = file.Truncate(freeAt); err != nil {\n\t\t\treturn false, fmt.Errorf("failed to truncate index file: %w", err)\n', "before", '\t\tvhook.Point("igc.reap.truncate")\n')

U = "store/index/upgrade.go"
add(U, '\t"github.com/ipld/go-storethehash/store/types"\n', "after", IMPORT)
add(U, '\tfileNum, err := chunkOldIndex(ctx, inFile, name, int64(maxFileSize))\n', "before", '\tvhook.Point("iup.begin")\n')
add(U, '\tif err = writeHeader(headerPath, newHeader(bucketBits, maxFileSize)); err != nil {\n', "before", '\tvhook.Point("iup.header")\n')
add(U, '\tif err = os.Remove(name); err != nil {\n', "before", '\tvhook.Point("iup.remove")\n')
add(U, '\t\t\tif err = writer.Flush(); err != nil {\n\t\t\t\treturn 0, err\n\t\t\t}\n\t\t\toutFile.Close()\n\t\t\tif ctx.Err() != nil {\n', "before", '\t\t\tvhook.Point("iup.chunk.flush")\n')
add(U, '\t\t\toutFile, err = createFileAppend(outName)\n', "before", '\t\t\tvhook.Point("iup.chunk.create")\n')
add(U, '\tif written != 0 {\n', "before", '\tvhook.Point("iup.chunk.last")\n')

M = "store/primary/multihash/multihash.go"
add(M, '\t"github.com/ipld/go-storethehash/store/types"\n', "after", IMPORT)
add(M, '\t\theader = newHeader(maxFileSize)\n\t\tif err = writeHeader(headerPath, header); err != nil {\n', "before", '\t\tvhook.Point("mh.open.header")\n')
add(M, '\tfile, err := os.OpenFile(primaryFileName(path, lastPrimaryNum), os.O_RDWR|os.O_APPEND|os.O_CREATE, 0o644)\n', "before", '\tvhook.Point("mh.open.file")\n')
add(M, '\t\tfile, err := os.OpenFile(primaryPath, os.O_RDWR|os.O_APPEND|os.O_CREATE, 0o644)\n', "before", '\t\tvhook.Point("mh.roll.create")\n')
add(M, '\t\tif err = cp.writer.Flush(); err != nil {\n\t\t\treturn 0, fmt.Errorf("cannot write to primary file %s: %w", cp.file.Name(), err)\n', "before", '\t\tvhook.Point("mh.roll.flushOld")\n')
add(M, '\t// The pool lock is released allowing Put to write to nextPool. The\n\t// flushLock is still held, preventing concurrent flushes from changing the\n\t// pools or accessing writer.\n', "before", '\tvhook.Point("mh.flush.swapped")\n')
add(M, '\terr := cp.writer.Flush()\n\tif err != nil {\n\t\treturn 0, fmt.Errorf("cannot flush data to primary file %s: %w", cp.file.Name(), err)\n\t}\n', "before", '\tvhook.Point("mh.flush.write")\n')
add(M, '\terr := cp.writer.Flush()\n\tif err != nil {\n\t\treturn 0, fmt.Errorf("cannot flush data to primary file %s: %w", cp.file.Name(), err)\n\t}\n', "after", '\tvhook.Point("mh.flush.written")\n')
add(M, '\tmp.fileCache.Clear()\n\n\t_, err := mp.Flush()\n', "before", '\tvhook.Point("mh.close.gcStopped")\n')

MG = "store/primary/multihash/gc.go"
add(MG, '\t"github.com/ipld/go-storethehash/store/types"\n', "after", IMPORT)
add(MG, '\tgc.reclaimed = 0\n', "after", '\tvhook.Point("pgc.begin")\n')
add(MG, '\t// Remove all files in the affected set from the visited set.\n', "before", '\tvhook.Point("pgc.freelistDone")\n')
add(MG, '\t\tdead, err := gc.reapRecords(fileNum, lowUsePercent)\n', "before", '\t\tvhook.Point("pgc.file")\n')
add(MG, '\t\t\tif err = writeHeader(gc.primary.headerPath, header); err != nil {\n', "before", '\t\t\tvhook.Point("pgc.header")\n')
add(MG, '\t\t\tif err = os.Remove(filePath); err != nil {\n', "before", '\t\t\tvhook.Point("pgc.unlink")\n')
add(MG, '\t\t\t\t\tbinary.LittleEndian.PutUint32(sizeBuf, freeAtSize|deletedBit)\n\t\t\t\t\t_, err = file.WriteAt(sizeBuf, freeAt)\n', "before", '\t\t\t\t\tvhook.Point("pgc.reap.merge")\n')
add(MG, '\t\tif err = file.Truncate(freeAt); err != nil {\n\t\t\treturn false, err\n', "before", '\t\tvhook.Point("pgc.reap.truncate")\n')
add(MG, '\t\t\t// Store the key and value in the primary.\n', "before", '\t\t\tvhook.Point("pgc.reap.relocate")\n')
add(MG, '\t\t\t// Update the index with the new primary location.\n', "before", '\t\t\tvhook.Point("pgc.reap.relocated")\n')
add(MG, '\t\t\t// Do not truncate file here, because moved record may not be\n', "before", '\t\t\tvhook.Point("pgc.reap.updated")\n')
add(MG, '\tflPath, err := freeList.ToGC()\n\tif err != nil {\n\t\treturn nil, fmt.Errorf("cannot get freelist gc file: %w", err)\n\t}\n', "before", '\tvhook.Point("pgc.fl.togc")\n')
add(MG, '\tflPath, err := freeList.ToGC()\n\tif err != nil {\n\t\treturn nil, fmt.Errorf("cannot get freelist gc file: %w", err)\n\t}\n', "after", '\tvhook.Point("pgc.fl.handed")\n')
add(MG, '\tif err = os.Remove(flPath); err != nil {\n\t\treturn nil, fmt.Errorf("error removing freelist: %w", err)\n', "before", '\tvhook.Point("pgc.fl.remove")\n')
add(MG, '\t\tbinary.LittleEndian.PutUint32(sizeBuf, recSize|deletedBit)\n\t\t_, err = file.WriteAt(sizeBuf, int64(localPos))\n', "before", '\t\tvhook.Point("pgc.fl.mark")\n')

MU = "store/primary/multihash/upgrade.go"
add(MU, '\t"github.com/ipld/go-storethehash/store/types"\n', "after", IMPORT)
add(MU, '\tif freeList != nil {\n\t\t// Instead of remapping all the primary offsets in the freelist, call\n', "before", '\tvhook.Point("pup.begin")\n')
add(MU, '\tfileNum, err := chunkOldPrimary(ctx, filePath, int64(maxFileSize))\n', "before", '\tvhook.Point("pup.freeApplied")\n')
add(MU, '\tif err = writeHeader(headerPath, newHeader(maxFileSize)); err != nil {\n', "before", '\tvhook.Point("pup.header")\n')
add(MU, '\tif err = os.Remove(filePath); err != nil {\n', "before", '\tvhook.Point("pup.remove")\n')
add(MU, '\t\t\tif err = writer.Flush(); err != nil {\n\t\t\t\treturn 0, err\n\t\t\t}\n\t\t\toutFile.Close()\n\t\t\tif ctx.Err() != nil {\n', "before", '\t\t\tvhook.Point("pup.chunk.flush")\n')
add(MU, '\t\t\toutFile, err = createFileAppend(outName)\n', "before", '\t\t\tvhook.Point("pup.chunk.create")\n')
add(MU, '\tif written != 0 {\n', "before", '\tvhook.Point("pup.chunk.last")\n')
add(MU, '\tflPath, err := freeList.ToGC()\n', "before", '\tvhook.Point("pup.fl.togc")\n')
add(MU, '\t\t\tbinary.LittleEndian.PutUint32(sizeBuf, recSize|deletedBit)\n\t\t\t_, err = primaryFile.WriteAt(sizeBuf, int64(offset))\n', "before", '\t\t\tvhook.Point("pup.fl.mark")\n')
add(MU, '\tif err = os.Remove(flPath); err != nil {\n', "before", '\tvhook.Point("pup.fl.remove")\n')

F = "store/freelist/freelist.go"
add(F, '\t"github.com/ipld/go-storethehash/store/types"\n', "after", IMPORT)
add(F, '\t// The pool lock is released allowing Put to write to nextPool. The\n\t// flushLock is still held, preventing concurrent flushes from changing the\n\t// pool or accessing writer.\n', "before", '\tvhook.Point("fl.flush.swapped")\n')
add(F, '\terr := cp.writer.Flush()\n\tif err != nil {\n\t\treturn 0, fmt.Errorf("cannot flush data to freelist file %s: %w", cp.file.Name(), err)\n', "before", '\tvhook.Point("fl.flush.write")\n')
add(F, '\t_, err = cp.Flush()\n\tif err != nil {\n\t\treturn "", err\n\t}\n\n\tcp.flushLock.Lock()\n', "before", '\tvhook.Point("fl.togc.flush")\n')
add(F, '\terr = os.Rename(fileName, workFilePath)\n', "before", '\tvhook.Point("fl.togc.rename")\n')
add(F, '\tcp.file, err = os.OpenFile(fileName, os.O_RDWR|os.O_APPEND|os.O_CREATE, 0o644)\n', "before", '\tvhook.Point("fl.togc.renamed")\n')

C = "store/primary/cid/cid.go"
add(C, '\t"github.com/ipld/go-storethehash/store/types"\n', "after", IMPORT)
add(C, '\tcp.outstandingWork = 0\n\tcp.poolLk.Unlock()\n', "after", '\tvhook.Point("cid.flush.swapped")\n')
add(C, '\terr := cp.writer.Flush()\n\tif err != nil {\n\t\treturn 0, fmt.Errorf("cannot flush data to primary file %s: %w", cp.file.Name(), err)\n', "before", '\tvhook.Point("cid.flush.write")\n')

files = {}
for f, anchor, where, text, nth in P:
    if not text:
        continue
    path = REPO + "/" + f
    if f not in files:
        files[f] = open(path).read()
    src = files[f]
    n = src.count(anchor)
    if n != 1:
        print("ANCHOR COUNT %d in %s for %r" % (n, f, anchor[:70]))
        sys.exit(1)
    i = src.index(anchor)
    if where == "after":
        i += len(anchor)
    files[f] = src[:i] + text + src[i:]
for f, src in files.items():
    open(REPO + "/" + f, "w").write(src)
print("inserted", sum(1 for p in P if p[3]), "snippets in", len(files), "files")
