#!/bin/sh
# usage: tools/sweep.sh <tier> <seed>...   runs every check, prints one line per (check, seed)
tier=$1; shift
cd "$(dirname "$0")/.."
for seed in "$@"; do
  for id in C01 C02 C03 C04 C05 C06 C07 C08 C09 C10 C11 C12 C13 C14 C15 C16 C17; do
    out=$(VERIF_SEED=$seed VERIF_EVIDENCE_DIR=/tmp/sweep-ev ./check $id $tier 2>&1); rc=$?
    echo "seed=$seed $id rc=$rc $(echo "$out" | grep -v KNOWN-FINDING | tail -1 | cut -c1-160)"
    if [ $rc -ne 0 ]; then echo "$out" | grep -A2 VIOLATION | cut -c1-300; fi
  done
done
