#!/usr/bin/env python3
"""Confirms an independently written breaking change and runs the checks on it.

usage: tools/seeded_eval.py <seed-id> <property> <worktree> [--checks C01,C07] [--tier quick|thorough] [--needs "..."]

Steps (all in a scratch clone of /repo's HEAD under /dev/shm, never in /repo):
  1. the patch applies and the tree builds (plain and -tags verif);
  2. the full existing suite passes with the patch (demo file absent);
  3. the demonstration fails with the patch and passes without it;
  4. the named checks are run against the patched clone (VERIF_REPO) and the
     verdicts recorded.
Writes /verif/seeded/<seed-id>/{patch.diff, <demo>, meta.json}.
"""
import json
import os
import shutil
import subprocess
import sys
import tempfile
import time

VERIF = os.path.dirname(os.path.dirname(os.path.abspath(__file__)))
ENV = dict(os.environ, GOFLAGS="-mod=mod", GOPROXY="off")


def sh(cmd, cwd, timeout=1800, env=ENV):
    p = subprocess.run(cmd, cwd=cwd, env=env, shell=isinstance(cmd, str), capture_output=True, text=True, errors="replace", timeout=timeout)
    return p.returncode, (p.stdout + p.stderr)


def main():
    a = sys.argv[1:]
    seed_id, prop, wt = a[0], a[1], a[2]
    checks = [prop]
    tier = "quick"
    needs = ""
    if "--checks" in a:
        checks = a[a.index("--checks") + 1].split(",")
    if "--tier" in a:
        tier = a[a.index("--tier") + 1]
    if "--needs" in a:
        needs = a[a.index("--needs") + 1]
    patch = os.path.join(wt, "patch.diff")
    rc, out = sh("git status --porcelain --untracked-files=all", wt)
    demos = [l[3:] for l in out.splitlines() if l.startswith("??") and "seeded_demo" in l]
    if not demos:
        print("no demo file found in", wt)
        return 2
    base = "/dev/shm" if os.path.isdir("/dev/shm") else tempfile.gettempdir()
    scratch = tempfile.mkdtemp(prefix="vfseed-", dir=base)
    meta = dict(id=seed_id, property=prop, needs_to_manifest=needs, demo=demos, ran=[], checks={})
    try:
        repo = os.path.join(scratch, "repo")
        subprocess.run(["git", "clone", "-q", "--no-hardlinks", "/repo", repo], check=True)
        rc, out = sh(["git", "apply", "--check", patch], repo)
        if rc != 0:
            print("patch does not apply:", out)
            return 2
        sh(["git", "apply", patch], repo)
        rc, out = sh("go build ./... && go build -tags verif ./...", repo)
        meta["ran"].append(dict(cmd="go build ./... && go build -tags verif ./...", rc=rc))
        if rc != 0:
            print("does not build:", out[-800:])
            return 2
        rc, out = sh("go test -vet=off -count=1 ./...", repo)
        meta["ran"].append(dict(cmd="go test -vet=off -count=1 ./...  (with the change, demo absent)", rc=rc))
        if rc != 0:
            print("existing suite FAILS with the change:", out[-1500:])
            meta["rejected"] = "existing suite fails"
        for d in demos:
            os.makedirs(os.path.dirname(os.path.join(repo, d)) or repo, exist_ok=True)
            shutil.copy(os.path.join(wt, d), os.path.join(repo, d))
        demo_pkgs = sorted({"./" + (os.path.dirname(d) or ".") for d in demos})
        race = "-race " if prop == "C16" else ""
        cmd = "go test %s-vet=off -count=1 -run 'Seeded|seeded|Demo' %s" % (race, " ".join(demo_pkgs))
        rc_with, out_with = sh(cmd, repo)
        meta["ran"].append(dict(cmd=cmd + "  (with the change)", rc=rc_with, tail=out_with[-600:]))
        sh(["git", "apply", "-R", patch], repo)
        rc_without, out_without = sh(cmd, repo)
        meta["ran"].append(dict(cmd=cmd + "  (without the change)", rc=rc_without, tail=out_without[-300:]))
        sh(["git", "apply", patch], repo)
        for d in demos:
            os.remove(os.path.join(repo, d))
        meta["demo_fails_with_change"] = rc_with != 0
        meta["demo_passes_without_change"] = rc_without == 0
        confirmed = rc_with != 0 and rc_without == 0 and "rejected" not in meta
        meta["confirmed"] = confirmed
        print("confirmed:", confirmed, "(demo with change rc=%s, without rc=%s)" % (rc_with, rc_without))
        # Freeze the harness sources, so that edits made while a long queue of
        # evaluations runs do not leak into it.
        frozen = os.path.join(scratch, "harness")
        shutil.copytree(os.path.join(VERIF, "harness"), frozen)
        for c in checks:
            env2 = dict(os.environ, VERIF_REPO=repo, VERIF_HARNESS=frozen, VERIF_EVIDENCE_DIR=os.path.join(scratch, "ev"), VERIF_REPLAY_DIR=os.path.join(scratch, "replays"))
            t0 = time.time()
            r = subprocess.run([os.path.join(VERIF, "check"), c, tier], cwd=VERIF, env=env2, capture_output=True, text=True)
            sigs = sorted({l.strip() for l in r.stdout.splitlines() if l.strip().startswith("signature:")})[:4]
            meta["checks"]["%s %s" % (c, tier)] = dict(exit=r.returncode, caught=r.returncode == 1, wall_s=round(time.time() - t0, 1), signatures=sigs)
            print(c, tier, "exit", r.returncode, sigs[:2])
            if r.returncode == 2:
                print(r.stdout[-1200:])
        out_dir = os.path.join(VERIF, "seeded", seed_id)
        os.makedirs(out_dir, exist_ok=True)
        shutil.copy(patch, os.path.join(out_dir, "patch.diff"))
        for d in demos:
            shutil.copy(os.path.join(wt, d), os.path.join(out_dir, os.path.basename(d)))
        meta["demo_location_in_repo"] = demos
        notes = os.path.join(wt, "NOTES.md")
        if os.path.exists(notes):
            shutil.copy(notes, os.path.join(out_dir, "NOTES.md"))
        meta["how_checked"] = "patch applied to a scratch clone of /repo HEAD under /dev/shm; checks run with VERIF_REPO pointing at the clone (same harness sources, alternative module file)"
        with open(os.path.join(out_dir, "meta.json"), "w") as f:
            json.dump(meta, f, indent=1)
            f.write("\n")
    finally:
        shutil.rmtree(scratch, ignore_errors=True)
    return 0


if __name__ == "__main__":
    sys.exit(main())
