"""Small semantic changes used to test the sensitivity of the checks. Each
compiles and is applied to a scratch clone only."""

IDX = "store/index/index.go"
RL = "store/index/recordlist.go"
ST = "store/store.go"
MH = "store/primary/multihash/multihash.go"
MG = "store/primary/multihash/gc.go"
IG = "store/index/gc.go"
FL = "store/freelist/freelist.go"
FC = "store/filecache/filecache.go"

MUTANTS = [
    dict(id="c01-no-fullkey-compare", props=["C01"], desc="Get skips the full-key comparison",
         edits=[(ST, "\tif !bytes.Equal(indexKey, storedKey) {\n\t\treturn nil, nil, nil\n\t}\n", "")]),
    dict(id="c01-keytrim-off-by-one", props=["C01", "C08"], desc="new key trimmed one byte too short when previous is a prefix",
         edits=[(IDX, "\t\t\ttrimmedIndexKey := indexKey[:keyTrimPos+1]\n\t\t\tvar keys []KeyPositionPair", "\t\t\ttrimmedIndexKey := indexKey[:keyTrimPos]\n\t\t\tvar keys []KeyPositionPair")]),
    dict(id="c01-findkeypos-ge", props=["C01", "C08"], desc="FindKeyPosition uses >= instead of >",
         edits=[(RL, "\t\tif bytes.Compare(record.Key, key) == 1 {\n\t\t\tpos = record.Pos\n", "\t\tif bytes.Compare(record.Key, key) >= 0 {\n\t\t\tpos = record.Pos\n")]),
    dict(id="c01-primary-rollover-gt", props=["C01"], desc="primary Put predicts roll-over with > instead of >=",
         edits=[(MH, "\tif cp.recPos >= types.Position(cp.maxFileSize) {", "\tif cp.recPos > types.Position(cp.maxFileSize) {")]),
    dict(id="c01-getsize-formula", props=["C01"], desc="GetSize forgets to subtract the key length",
         edits=[(ST, "\treturn blk.Size - types.Size(len(key)), true, nil", "\treturn blk.Size, true, nil")]),
    dict(id="c01-remove-no-keycheck", props=["C01"], desc="Remove does not verify the stored key",
         edits=[(ST, "\tif storedKey == nil {\n\t\t// The indexKey does not exist and there is nothing to remove.\n\t\treturn false, nil\n\t}\n\n\tvhook.Point(\"remove.primaryChecked\")\n\tremoved, err := s.index.Remove(storedKey)",
                 "\tif storedKey == nil {\n\t\tstoredKey = indexKey\n\t}\n\n\tvhook.Point(\"remove.primaryChecked\")\n\tremoved, err := s.index.Remove(storedKey)")]),
    dict(id="c01-immutable-check-removed", props=["C01"], desc="immutable mode accepts updates",
         edits=[(ST, "\t\t\tif s.immutable {\n\t\t\t\treturn types.ErrKeyExists\n\t\t\t}\n", "")]),
    dict(id="c01-index-rollover-gt", props=["C01", "C02"], desc="index rolls over with > instead of >=",
         edits=[(IDX, "\tif idx.length >= types.Position(idx.maxFileSize) {", "\tif idx.length > types.Position(idx.maxFileSize) {")]),
    dict(id="c02-rescan-keeps-deleted", props=["C02"], desc="rescan does not skip deleted index records",
         edits=[(IDX, "\t\tif size&deletedBit != 0 {\n\t\t\t// Record is deleted, so skip.\n\t\t\tpos += int64(size ^ deletedBit)\n\t\t\tcontinue\n\t\t}\n", "\t\tif size&deletedBit != 0 {\n\t\t\tsize ^= deletedBit\n\t\t}\n")]),
    dict(id="c02-rescan-from-zero", props=["C02"], desc="rescan starts at file 0 instead of header.FirstFile",
         edits=[(IDX, "\t\t\tlastIndexNum, err = scanIndex(ctx, path, header.FirstFile, buckets, maxFileSize)", "\t\t\tlastIndexNum, err = scanIndex(ctx, path, 0, buckets, maxFileSize)")]),
    dict(id="c02-snapshot-before-flush", props=["C02"], desc="bucket snapshot saved before the final index flush",
         edits=[(IDX, "\t\tvhook.Point(\"index.close.gcStopped\")\n\t\t_, err = idx.Flush()\n", "\t\tvhook.Point(\"index.close.gcStopped\")\n\t\tidx.saveBucketState()\n\t\t_, err = idx.Flush()\n"),
                (IDX, "\t\tvhook.Point(\"index.close.fileClosed\")\n\t\terr = idx.saveBucketState()\n", "\t\tvhook.Point(\"index.close.fileClosed\")\n")]),
    dict(id="c02-findlast-stops-early", props=["C02"], desc="findLastPrimary returns the first file",
         edits=[(MH, "\t\tlastFound = fileNum\n\t\tfileNum++\n\t}\n\treturn lastFound, nil\n}\n\nvar _ primary.PrimaryStorage", "\t\tif lastFound == 0 {\n\t\t\tlastFound = fileNum\n\t\t}\n\t\tfileNum++\n\t}\n\treturn lastFound, nil\n}\n\nvar _ primary.PrimaryStorage")]),
    dict(id="c04-busy-ignores-position", props=["C04"], desc="index GC busy() compares only the file number",
         edits=[(IG, "\tif fileNum == fileNumInBucket && localPos == int64(localPosInBucket) {", "\tif fileNum == fileNumInBucket {")]),
    dict(id="c04-busy-inverted-file", props=["C04"], desc="index GC busy() ignores the file number",
         edits=[(IG, "\tif fileNum == fileNumInBucket && localPos == int64(localPosInBucket) {", "\tif fileNum <= fileNumInBucket && localPos == int64(localPosInBucket) && fileNumInBucket-fileNum < 1 && fileNum%3 != 2 {")]),
    dict(id="c04-truncate-at-busy", props=["C04"], desc="primary GC truncates at the last busy record",
         edits=[(MG, "\t\tvhook.Point(\"pgc.reap.truncate\")\n\t\tif err = file.Truncate(freeAt); err != nil {", "\t\tvhook.Point(\"pgc.reap.truncate\")\n\t\tif busyAt >= 0 {\n\t\t\tfreeAt = busyAt\n\t\t}\n\t\tif err = file.Truncate(freeAt); err != nil {")]),
    dict(id="c04-freelist-sizecheck-removed", props=["C04"], desc="freelist size check removed and offsets off by 4",
         edits=[(MG, "\t\tif types.Size(recSize) != freeRec.Size {", "\t\tif false && types.Size(recSize) != freeRec.Size {"),
                (MG, "\t\tlocalPos, fileNum := localizePrimaryPos(freeRec.Offset, maxFileSize)\n\t\tif file == nil", "\t\tlocalPos, fileNum := localizePrimaryPos(freeRec.Offset, maxFileSize)\n\t\tif localPos > 40 {\n\t\t\tlocalPos -= 5\n\t\t}\n\t\tif file == nil")]),
    dict(id="c04-relocation-no-index-update", props=["C04"], desc="relocation does not update the index",
         edits=[(MG, "\t\t\tif err = gc.updateIndex(indexKey, fileOffset); err != nil {", "\t\t\tif err = error(nil); indexKey == nil {")]),
    dict(id="c04-merge-size-off", props=["C04", "C02"], desc="index GC merge forgets the size prefix of the merged record",
         edits=[(IG, "\t\t\t\t// Merge this free record into the last\n\t\t\t\tfreeAtSize += sizePrefixSize + size\n", "\t\t\t\t// Merge this free record into the last\n\t\t\t\tfreeAtSize += size\n")]),
]
