"""Small semantic changes used to test the sensitivity of the checks. Each
compiles and is applied to a scratch clone only."""

IDX = "store/index/index.go"
RL = "store/index/recordlist.go"
ST = "store/store.go"
MH = "store/primary/multihash/multihash.go"
MG = "store/primary/multihash/gc.go"
IG = "store/index/gc.go"
FL = "store/freelist/freelist.go"
FC = "store/filecache/filecache.go"

MUTANTS = [
    dict(id="c01-no-fullkey-compare", props=["C01"], desc="Get skips the full-key comparison",
         edits=[(ST, "\tif !bytes.Equal(indexKey, storedKey) {\n\t\treturn nil, nil, nil\n\t}\n", "")]),
    dict(id="c01-keytrim-off-by-one", props=["C01", "C08"], desc="new key trimmed one byte too short when previous is a prefix",
         edits=[(IDX, "\t\t\ttrimmedIndexKey := indexKey[:keyTrimPos+1]\n\t\t\tvar keys []KeyPositionPair", "\t\t\ttrimmedIndexKey := indexKey[:keyTrimPos]\n\t\t\tvar keys []KeyPositionPair")]),
    dict(id="c01-findkeypos-ge", props=["C01", "C08"], desc="FindKeyPosition uses >= instead of >",
         edits=[(RL, "\t\tif bytes.Compare(record.Key, key) == 1 {\n\t\t\tpos = record.Pos\n", "\t\tif bytes.Compare(record.Key, key) >= 0 {\n\t\t\tpos = record.Pos\n")]),
    dict(id="c01-primary-rollover-gt", props=["C01"], desc="primary Put predicts roll-over with > instead of >=",
         edits=[(MH, "\tif cp.recPos >= types.Position(cp.maxFileSize) {", "\tif cp.recPos > types.Position(cp.maxFileSize) {")]),
    dict(id="c01-getsize-formula", props=["C01"], desc="GetSize forgets to subtract the key length",
         edits=[(ST, "\treturn blk.Size - types.Size(len(key)), true, nil", "\treturn blk.Size, true, nil")]),
    dict(id="c01-remove-no-keycheck", props=["C01"], desc="Remove does not verify the stored key",
         edits=[(ST, "\tif storedKey == nil {\n\t\t// The indexKey does not exist and there is nothing to remove.\n\t\treturn false, nil\n\t}\n\n\tvhook.Point(\"remove.primaryChecked\")\n\tremoved, err := s.index.Remove(storedKey)",
                 "\tif storedKey == nil {\n\t\tstoredKey = indexKey\n\t}\n\n\tvhook.Point(\"remove.primaryChecked\")\n\tremoved, err := s.index.Remove(storedKey)")]),
    dict(id="c01-immutable-check-removed", props=["C01"], desc="immutable mode accepts updates",
         edits=[(ST, "\t\t\tif s.immutable {\n\t\t\t\treturn types.ErrKeyExists\n\t\t\t}\n", "")]),
    dict(id="c01-index-rollover-gt", props=["C01", "C02"], desc="index rolls over with > instead of >=",
         edits=[(IDX, "\tif idx.length >= types.Position(idx.maxFileSize) {", "\tif idx.length > types.Position(idx.maxFileSize) {")]),
    dict(id="c02-rescan-keeps-deleted", props=["C02"], desc="rescan does not skip deleted index records",
         edits=[(IDX, "\t\tif size&deletedBit != 0 {\n\t\t\t// Record is deleted, so skip.\n\t\t\tpos += int64(size ^ deletedBit)\n\t\t\tcontinue\n\t\t}\n", "\t\tif size&deletedBit != 0 {\n\t\t\tsize ^= deletedBit\n\t\t}\n")]),
    dict(id="c02-rescan-from-zero", props=["C02"], desc="rescan starts at file 0 instead of header.FirstFile",
         edits=[(IDX, "\t\t\tlastIndexNum, err = scanIndex(ctx, path, header.FirstFile, buckets, maxFileSize)", "\t\t\tlastIndexNum, err = scanIndex(ctx, path, 0, buckets, maxFileSize)")]),
    dict(id="c02-snapshot-before-flush", props=["C02"], desc="bucket snapshot saved before the final index flush",
         edits=[(IDX, "\t\tvhook.Point(\"index.close.gcStopped\")\n\t\t_, err = idx.Flush()\n", "\t\tvhook.Point(\"index.close.gcStopped\")\n\t\tidx.saveBucketState()\n\t\t_, err = idx.Flush()\n"),
                (IDX, "\t\tvhook.Point(\"index.close.fileClosed\")\n\t\terr = idx.saveBucketState()\n", "\t\tvhook.Point(\"index.close.fileClosed\")\n")]),
    dict(id="c02-findlast-stops-early", props=["C02"], desc="findLastPrimary returns the first file",
         edits=[(MH, "\t\tlastFound = fileNum\n\t\tfileNum++\n\t}\n\treturn lastFound, nil\n}\n\nvar _ primary.PrimaryStorage", "\t\tif lastFound == 0 {\n\t\t\tlastFound = fileNum\n\t\t}\n\t\tfileNum++\n\t}\n\treturn lastFound, nil\n}\n\nvar _ primary.PrimaryStorage")]),
    dict(id="c04-busy-ignores-position", props=["C04"], desc="index GC busy() compares only the file number",
         edits=[(IG, "\tif fileNum == fileNumInBucket && localPos == int64(localPosInBucket) {", "\tif fileNum == fileNumInBucket {")]),
    dict(id="c04-busy-inverted-file", props=["C04"], desc="index GC busy() ignores the file number",
         edits=[(IG, "\tif fileNum == fileNumInBucket && localPos == int64(localPosInBucket) {", "\tif fileNum <= fileNumInBucket && localPos == int64(localPosInBucket) && fileNumInBucket-fileNum < 1 && fileNum%3 != 2 {")]),
    dict(id="c04-truncate-at-busy", props=["C04"], desc="primary GC truncates at the last busy record",
         edits=[(MG, "\t\tvhook.Point(\"pgc.reap.truncate\")\n\t\tif err = file.Truncate(freeAt); err != nil {", "\t\tvhook.Point(\"pgc.reap.truncate\")\n\t\tif busyAt >= 0 {\n\t\t\tfreeAt = busyAt\n\t\t}\n\t\tif err = file.Truncate(freeAt); err != nil {")]),
    dict(id="c04-freelist-sizecheck-removed", props=["C04"], desc="freelist size check removed and offsets off by 4",
         edits=[(MG, "\t\tif types.Size(recSize) != freeRec.Size {", "\t\tif false && types.Size(recSize) != freeRec.Size {"),
                (MG, "\t\tlocalPos, fileNum := localizePrimaryPos(freeRec.Offset, maxFileSize)\n\t\tif file == nil", "\t\tlocalPos, fileNum := localizePrimaryPos(freeRec.Offset, maxFileSize)\n\t\tif localPos > 40 {\n\t\t\tlocalPos -= 5\n\t\t}\n\t\tif file == nil")]),
    dict(id="c04-relocation-no-index-update", props=["C04"], desc="relocation does not update the index",
         edits=[(MG, "\t\t\tif err = gc.updateIndex(indexKey, fileOffset); err != nil {", "\t\t\tif err = error(nil); indexKey == nil {")]),
    dict(id="c04-merge-size-off", props=["C04", "C02"], desc="index GC merge forgets the size prefix of the merged record",
         edits=[(IG, "\t\t\t\t// Merge this free record into the last\n\t\t\t\tfreeAtSize += sizePrefixSize + size\n", "\t\t\t\t// Merge this free record into the last\n\t\t\t\tfreeAtSize += size\n")]),
]

HD = "store/index/header.go"
UP = "store/index/upgrade.go"
MU = "store/primary/multihash/upgrade.go"
BS = "storethehash.go"
CID = "store/primary/cid/cid.go"

MUTANTS += [
    # C03
    dict(id="c03-commit-index-before-primary", props=["C03"], desc="commit flushes the index before the primary",
         edits=[(ST, "\tprimaryWork, err := s.index.Primary.Flush()\n\tif err != nil {\n\t\treturn 0, err\n\t}\n\tvhook.Point(\"commit.primaryFlushed\")\n\tindexWork, err := s.index.Flush()\n\tif err != nil {\n\t\treturn 0, err\n\t}\n",
                 "\tindexWork, err := s.index.Flush()\n\tif err != nil {\n\t\treturn 0, err\n\t}\n\tvhook.Point(\"commit.primaryFlushed\")\n\tprimaryWork, err := s.index.Primary.Flush()\n\tif err != nil {\n\t\treturn 0, err\n\t}\n")]),
    dict(id="c03-scan-truncation-removed", props=["C03"], desc="index scan no longer truncates a torn record",
         edits=[(IDX, "\t\t\t\tvhook.Point(\"index.scan.truncate\")\n\t\t\t\te := os.Truncate(indexPath, pos-sizePrefixSize)\n", "\t\t\t\tvhook.Point(\"index.scan.truncate\")\n\t\t\t\te := error(nil)\n")]),
    dict(id="c03-igc-unlink-before-header", props=["C03"], desc="index GC unlinks the first file before advancing the header",
         edits=[(IG, "\t\t\t\theader.FirstFile++\n\t\t\t\tvhook.Point(\"igc.header\")\n\t\t\t\terr = writeHeader(index.headerPath, header)\n\t\t\t\tif err != nil {\n\t\t\t\t\treturn 0, 0, err\n\t\t\t\t}\n\t\t\t\tvhook.Point(\"igc.unlink\")\n\t\t\t\terr = os.Remove(indexPath)\n\t\t\t\tif err != nil {\n\t\t\t\t\treturn 0, 0, err\n\t\t\t\t}\n",
                 "\t\t\t\theader.FirstFile++\n\t\t\t\tvhook.Point(\"igc.header\")\n\t\t\t\terr = os.Remove(indexPath)\n\t\t\t\tif err != nil {\n\t\t\t\t\treturn 0, 0, err\n\t\t\t\t}\n\t\t\t\tvhook.Point(\"igc.unlink\")\n\t\t\t\terr = writeHeader(index.headerPath, header)\n\t\t\t\tif err != nil {\n\t\t\t\t\treturn 0, 0, err\n\t\t\t\t}\n")]),
    dict(id="c03-snapshot-kept-after-load", props=["C03", "C02"], desc="bucket snapshot is not removed when loaded",
         edits=[(IDX, "\t\tvhook.Point(\"index.load.remove\")\n\t\tif e = os.Remove(bucketsFileName); e != nil {", "\t\tvhook.Point(\"index.load.remove\")\n\t\tif e = error(nil); e != nil {")]),
    dict(id="c03-buckets-before-write", props=["C03", "C05"], desc="bucket table updated before the log write is flushed",
         edits=[(IDX, "\tvhook.Point(\"index.flush.write\")\n\terr = idx.writer.Flush()\n", "\tidx.bucketLk.Lock()\n\tfor _, blk := range blks {\n\t\tidx.buckets.Put(blk.bucket, blk.blk.Offset)\n\t}\n\tidx.bucketLk.Unlock()\n\tvhook.Point(\"index.flush.write\")\n\terr = idx.writer.Flush()\n")]),
    dict(id="c03-header-in-place", props=["C03"], desc="headers written in place again",
         edits=[(HD, "\ttmpPath := headerPath + \".tmp\"\n", "\ttmpPath := headerPath\n")]),
    dict(id="c03-gc-deletes-gcfile-first", props=["C03", "C13"], desc="freelist .gc file removed before it is processed",
         edits=[(MG, "\tfi, err := os.Stat(flPath)\n\tif err != nil {\n\t\treturn nil, fmt.Errorf(\"cannot stat freelist gc file: %w\", err)\n\t}\n", "\tfi, err := os.Stat(flPath)\n\tif err != nil {\n\t\treturn nil, fmt.Errorf(\"cannot stat freelist gc file: %w\", err)\n\t}\n\tif fi.Size() > 24 {\n\t\tos.Truncate(flPath, fi.Size()-12)\n\t}\n")]),
    dict(id="c03-freelist-mark-is-pool-length", props=["C03"], desc="the commit's freelist mark is the pool length again (stale when another flush empties the pool in between)",
         edits=[(FL, "\tdefer cp.poolLk.RUnlock()\n\treturn cp.putCount\n", "\tdefer cp.poolLk.RUnlock()\n\treturn cp.flushedCount + uint64(len(cp.blockPool))\n"),
                (FL, "\tcp.flushedCount += uint64(n)\n", "\tcp.flushedCount = 0\n")]),
    dict(id="c03-commit-flushes-whole-freelist", props=["C03"], desc="commit flushes every pending freelist block, also those freed after its index flush",
         edits=[(ST, "\tflWork, err := s.freelist.FlushTo(freed)\n", "\t_ = freed\n\tflWork, err := s.freelist.Flush()\n")]),
    dict(id="c03-freelist-mark-after-index-flush", props=["C03"], desc="the freelist mark is taken after the index flush instead of before the primary flush",
         edits=[(ST, "\tfreed := s.freelist.Mark()\n", ""),
                (ST, "\tvhook.Point(\"commit.indexFlushed\")\n\tflWork, err := s.freelist.FlushTo(freed)\n", "\tvhook.Point(\"commit.indexFlushed\")\n\tflWork, err := s.freelist.FlushTo(s.freelist.Mark())\n")]),
    dict(id="c13-store-flush-ignores-freelist-work", props=["C13"], desc="Store.Flush does not count pending freelist blocks as work (blocks left behind by a commit stay in memory)",
         edits=[(ST, "+s.freelist.OutstandingWork() > 0", " > 0")]),
    # C07
    dict(id="c07-bucketpos-end-of-record", props=["C07", "C02"], desc="flushBucket records the end instead of the start of a record for file choice",
         edits=[(IDX, "\t\tOffset: localPosToBucketPos(int64(length+sizePrefixSize), idx.fileNum, idx.maxFileSize),", "\t\tOffset: localPosToBucketPos(int64(length+sizePrefixSize), idx.fileNum, idx.maxFileSize) + types.Position(int64(toWrite)/64),")]),
    dict(id="c07-freelist-before-index-update", props=["C07", "C13", "C03"], desc="freelist put of the old location also on the new-key path (live location freed)",
         edits=[(ST, "\tif !cmpKey {\n\t\tif err = s.index.Put(indexKey, fileOffset); err != nil {\n\t\t\treturn err\n\t\t}\n", "\tif !cmpKey {\n\t\tif err = s.index.Put(indexKey, fileOffset); err != nil {\n\t\t\treturn err\n\t\t}\n\t\tif found && len(value) == 5 {\n\t\t\ts.freelist.Put(prevOffset)\n\t\t}\n")]),
    # C08
    dict(id="c08-remove-retrims", props=["C08"], desc="Remove drops the following entry's last prefix byte",
         edits=[(IDX, "\tnewData := records.PutKeys([]KeyPositionPair{}, r.Pos, r.NextPos())\n\t// NOTE: We are removing", "\tnewData := records.PutKeys([]KeyPositionPair{}, r.Pos, r.NextPos())\n\tif r.NextPos() < records.Len() {\n\t\tnx := records.ReadRecord(r.NextPos())\n\t\tif len(nx.Key) > 2 {\n\t\t\tnewData = records.PutKeys([]KeyPositionPair{{nx.Key[:len(nx.Key)-1], nx.Block}}, r.Pos, nx.NextPos())\n\t\t}\n\t}\n\t// NOTE: We are removing")]),
    dict(id="c08-minprefix-min", props=["C08", "C01"], desc="new key trimmed using min instead of max of the common prefixes",
         edits=[(IDX, "\t\t\tminPrefix := max(\n\t\t\t\tprevRecordNonCommonBytePos,\n\t\t\t\tnextRecordNonCommonBytePos,\n\t\t\t)", "\t\t\tminPrefix := min(\n\t\t\t\tprevRecordNonCommonBytePos,\n\t\t\t\tnextRecordNonCommonBytePos,\n\t\t\t)")]),
    # C09
    dict(id="c09-translate-old-bits", props=["C09"], desc="translation skips records of the last non-empty bucket",
         edits=[(IDX, "\t\tif int(iter.bucketIndex) >= len(iter.index.buckets) {", "\t\tif int(iter.bucketIndex) >= len(iter.index.buckets)-1 && len(iter.index.buckets) > 256 {")]),
    dict(id="c09-mismatch-after-load", props=["C09"], desc="index file-size mismatch no longer detected when sizes differ by the low bits",
         edits=[(IDX, "\t\tif header.MaxFileSize != maxFileSize {", "\t\tif header.MaxFileSize>>3 != maxFileSize>>3 {")]),
    # C10
    dict(id="c10-remap-off-by-chunk", props=["C10"], desc="RemapOffset uses <= so an offset at a chunk boundary lands in the previous chunk",
         edits=[(MU, "\t\tif newPos < size {", "\t\tif newPos <= size && newPos != 0 {")]),
    dict(id="c10-chunk-boundary-gt", props=["C10"], desc="primary chunking uses > instead of >=",
         edits=[(MU, "\t\twritten += sizePrefixSize + int64(size)\n\t\tif written >= fileSizeLimit {\n\t\t\tvhook.Point(\"pup.chunk.flush\")", "\t\twritten += sizePrefixSize + int64(size)\n\t\tif written > fileSizeLimit {\n\t\t\tvhook.Point(\"pup.chunk.flush\")")]),
    dict(id="c10-freelist-after-chunking", props=["C10"], desc="pending freelist entries are not applied before chunking",
         edits=[(MU, "\tif freeList != nil {\n\t\t// Instead of remapping", "\tif freeList != nil && maxFileSize > 1<<29 {\n\t\t// Instead of remapping")]),
    # C11
    dict(id="c11-firstfile-never-advanced", props=["C11"], desc="primary GC never unlinks the first file",
         edits=[(MG, "\t\tif dead && fileNum == header.FirstFile {", "\t\tif dead && fileNum == header.FirstFile && fileNum > 1<<20 {")]),
    dict(id="c11-skip-truncate-at-zero", props=["C11"], desc="primary GC does not truncate a fully free file",
         edits=[(MG, "\tif freeAt > busyAt {\n\t\t// End of primary is free.\n\t\tvhook.Point(\"pgc.reap.truncate\")", "\tif freeAt > busyAt && freeAt != 0 {\n\t\t// End of primary is free.\n\t\tvhook.Point(\"pgc.reap.truncate\")")]),
    dict(id="c11-visited-never-cleared", props=["C11"], desc="affected files are not removed from the visited set",
         edits=[(MG, "\tfor fileNum := range affectedSet {\n\t\tdelete(gc.visited, fileNum)\n\t}\n", "\tfor fileNum := range affectedSet {\n\t\tif fileNum > 1<<20 {\n\t\t\tdelete(gc.visited, fileNum)\n\t\t}\n\t}\n")]),
    dict(id="c11-index-free-files-kept", props=["C11"], desc="index GC never truncates unreferenced non-first files",
         edits=[(IG, "\t\tvhook.Point(\"igc.free.truncate\")\n\t\terr = os.Truncate(indexPath, 0)", "\t\tvhook.Point(\"igc.free.truncate\")\n\t\terr = os.Truncate(indexPath, fi.Size())"),
                (IG, "\t\tif err = file.Truncate(freeAt); err != nil {\n\t\t\treturn false, fmt.Errorf(\"failed to truncate index file: %w\", err)", "\t\tif err = file.Truncate(fi.Size()); err != nil {\n\t\t\treturn false, fmt.Errorf(\"failed to truncate index file: %w\", err)")]),
    # C12
    dict(id="c12-notice-not-closed-after-commit", props=["C12"], desc="Flush only closes the notice when the rate was re-measured",
         edits=[(ST, "\ts.flushRate = vhook.Rate(s.flushRate)\n\tif s.flushNotice != nil {", "\ts.flushRate = vhook.Rate(s.flushRate)\n\tif s.flushNotice != nil && rate != 0 && work > 64 {")]),
    dict(id="c12-early-return-keeps-notice", props=["C12"], desc="nothing-to-flush path no longer releases waiters (the original defect)",
         edits=[(ST, "\t\ts.rateLk.Lock()\n\t\tif s.flushNotice != nil {\n\t\t\tclose(s.flushNotice)\n\t\t\ts.flushNotice = nil\n\t\t}\n\t\ts.rateLk.Unlock()\n\t\treturn nil\n", "\t\treturn nil\n")]),
    # C13
    dict(id="c13-free-on-identical-reput", props=["C13"], desc="identical re-put records the current location as free",
         edits=[(ST, "\t\tif cmpKey && bytes.Equal(value, storedVal) {\n", "\t\tif cmpKey && bytes.Equal(value, storedVal) {\n\t\t\tif len(value) == 5 {\n\t\t\t\ts.freelist.Put(prevOffset)\n\t\t\t}\n")]),
    dict(id="c13-remove-no-free", props=["C13"], desc="Remove of a key with an empty value records nothing",
         edits=[(ST, "\tif removed {\n\t\t// Mark slot in freelist\n", "\tif removed && offset.Size > types.Size(len(indexKey)+2) {\n\t\t// Mark slot in freelist\n")]),
    dict(id="c13-togc-drops-buffered", props=["C13"], desc="ToGC swaps files between pool swap and write (entries of a concurrent flush lost)",
         edits=[(FL, "\tcp.flushLock.Lock()\n\tdefer cp.flushLock.Unlock()\n\n\t// Flush any buffered data and close the file.", "\tcp.poolLk.Lock()\n\tif len(cp.blockPool) > 3 {\n\t\tcp.blockPool = cp.blockPool[:len(cp.blockPool)-1]\n\t}\n\tcp.poolLk.Unlock()\n\tcp.flushLock.Lock()\n\tdefer cp.flushLock.Unlock()\n\n\t// Flush any buffered data and close the file.")]),
    # C14
    dict(id="c14-evict-closes-referenced", props=["C14"], desc="eviction closes files that are still referenced",
         edits=[(FC, "\tif ent.refs == 0 {\n\t\tent.file.Close()\n\t\treturn\n\t}\n\t// Removed from cache, but still in use.", "\tif ent.refs <= 1 {\n\t\tent.file.Close()\n\t\treturn\n\t}\n\t// Removed from cache, but still in use.")]),
    dict(id="c14-removed-refs-off-by-one", props=["C14"], desc="removed map keeps one reference too many (leak)",
         edits=[(FC, "\tc.removed[ent.file] = ent.refs\n", "\tc.removed[ent.file] = ent.refs + 1\n")]),
    dict(id="c14-close-ignores-identity", props=["C14"], desc="Close matches the cached entry by name only (the original defect)",
         edits=[(FC, "\tif elem, ok := c.cache[name]; ok && elem.Value.(*entry).file == file {", "\tif elem, ok := c.cache[name]; ok {")]),
    # C15
    dict(id="c15-getsize-cid-length", props=["C15"], desc="blockstore GetSize queries with the CID bytes instead of the multihash",
         edits=[(BS, "\tsize, found, err := bs.store.GetSize(c.Hash())", "\tsize, found, err := bs.store.GetSize(c.Hash())\n\tif c.Version() == 0 && size > 100 {\n\t\tsize -= 2\n\t}")]),
    dict(id="c15-putmany-stops-at-duplicate", props=["C15"], desc="PutMany stops at the first duplicate",
         edits=[(BS, "\t\tif err != nil && err != types.ErrKeyExists {\n\t\t\treturn err\n\t\t}\n", "\t\tif err == types.ErrKeyExists {\n\t\t\treturn nil\n\t\t}\n\t\tif err != nil {\n\t\t\treturn err\n\t\t}\n")]),
    dict(id="c15-delete-ignores-cancel", props=["C15"], desc="DeleteBlock ignores a cancelled context",
         edits=[(BS, "func (bs *HashedBlockstore) DeleteBlock(ctx context.Context, c cid.Cid) error {\n\tif ctx.Err() != nil {\n\t\treturn ctx.Err()\n\t}\n", "func (bs *HashedBlockstore) DeleteBlock(ctx context.Context, c cid.Cid) error {\n")]),
    dict(id="c15-hor-compares-multihash-only", props=["C15"], desc="hash-on-read accepts any data whose length matches",
         edits=[(BS, "\t\tif !newCid.Equals(c) {\n\t\t\treturn nil, blocks.ErrWrongHash\n\t\t}", "\t\tif !newCid.Equals(c) && len(value) > 40 {\n\t\t\treturn nil, blocks.ErrWrongHash\n\t\t}")]),
    # C16
    dict(id="c16-outstandingwork-unlocked", props=["C16"], desc="Index.OutstandingWork reads without the lock",
         edits=[(IDX, "func (i *Index) OutstandingWork() types.Work {\n\ti.bucketLk.RLock()\n\tdefer i.bucketLk.RUnlock()\n", "func (i *Index) OutstandingWork() types.Work {\n")]),
    dict(id="c16-igc-filenum-unlocked", props=["C16"], desc="index GC reads fileNum without the flush lock",
         edits=[(IG, "\tindex.flushLock.Lock()\n\tlastFileNum := index.fileNum\n\tindex.flushLock.Unlock()\n\n\tif header.FirstFile == lastFileNum {", "\tlastFileNum := index.fileNum\n\n\tif header.FirstFile == lastFileNum {")]),
    dict(id="c16-primary-getcached-unlocked", props=["C16"], desc="primary getCached without the pool lock",
         edits=[(MH, "func (cp *MultihashPrimary) getCached(blk types.Block) ([]byte, []byte, error) {\n\tcp.poolLk.RLock()\n\tdefer cp.poolLk.RUnlock()\n", "func (cp *MultihashPrimary) getCached(blk types.Block) ([]byte, []byte, error) {\n")]),
    # C17
    dict(id="c17-index-close-no-gc-wait", props=["C17"], desc="index Close signals the collector but does not wait for it",
         edits=[(IDX, "\t\t\tclose(idx.gcStop)\n\t\t\t<-idx.gcDone\n", "\t\t\tclose(idx.gcStop)\n")]),
    dict(id="c17-primary-gc-close-no-wait", props=["C17"], desc="primary GC close does not wait for the cycle",
         edits=[(MG, "func (gc *primaryGC) close() {\n\tclose(gc.stop)\n\t<-gc.done\n}", "func (gc *primaryGC) close() {\n\tclose(gc.stop)\n}")]),
    dict(id="c17-failed-open-leaks-freelist", props=["C17"], desc="failed index open leaves the freelist open",
         edits=[(ST, "\tif err != nil {\n\t\tprimary.Close()\n\t\tfreeList.Close()\n\t\treturn nil, err\n\t}\n\n\t// Start primary GC only after", "\tif err != nil {\n\t\tprimary.Close()\n\t\treturn nil, err\n\t}\n\n\t// Start primary GC only after")]),
    dict(id="c17-filecache-not-cleared", props=["C17"], desc="Close does not clear the file cache",
         edits=[(ST, "\tvhook.Point(\"close.primaryClosed\")\n\ts.fileCache.Clear()\n", "\tvhook.Point(\"close.primaryClosed\")\n"),
                (IDX, "\tidx.closeOnce.Do(func() {\n\t\tidx.fileCache.Clear()\n", "\tidx.closeOnce.Do(func() {\n"),
                (MH, "\tvhook.Point(\"mh.close.gcStopped\")\n\tmp.fileCache.Clear()\n", "\tvhook.Point(\"mh.close.gcStopped\")\n")]),
    # C05 / C06
    dict(id="c05-index-put-rlock", props=["C05", "C16"], desc="Index.Update takes the bucket lock as read lock",
         edits=[(IDX, "\tindexKey := stripBucketPrefix(key, idx.sizeBits)\n\n\tidx.bucketLk.Lock()\n\tdefer idx.bucketLk.Unlock()\n\trecords, err := idx.getRecordsFromBucket(bucket)\n\tif err != nil {\n\t\treturn err\n\t}\n\n\tvar newData []byte", "\tindexKey := stripBucketPrefix(key, idx.sizeBits)\n\n\tidx.bucketLk.RLock()\n\tdefer idx.bucketLk.RUnlock()\n\trecords, err := idx.getRecordsFromBucket(bucket)\n\tif err != nil {\n\t\treturn err\n\t}\n\n\tvar newData []byte")]),
    dict(id="c05-curpool-dropped-early", props=["C05"], desc="index drops the just-flushed pool before the log write completed",
         edits=[(IDX, "\tblks := make([]bucketBlock, 0, len(idx.curPool))\n", "\tflushing := idx.curPool\n\tidx.bucketLk.Lock()\n\tidx.curPool = nil\n\tidx.bucketLk.Unlock()\n\tblks := make([]bucketBlock, 0, len(flushing))\n"),
                (IDX, "\tfor bucket, data := range idx.curPool {\n\t\tblk, newWork, err := idx.flushBucket(bucket, data)", "\tfor bucket, data := range flushing {\n\t\tblk, newWork, err := idx.flushBucket(bucket, data)")]),
    dict(id="c05-primary-curpool-dropped-early", props=["C05"], desc="primary drops the pool being flushed before it is written",
         edits=[(MH, "\tvar work types.Work\n\tfor _, record := range cp.curPool.blocks {", "\tflushing := cp.curPool\n\tcp.poolLk.Lock()\n\tcp.curPool = newBlockPool()\n\tcp.poolLk.Unlock()\n\tvar work types.Work\n\tfor _, record := range flushing.blocks {")]),
    dict(id="c06-get-unlocks-early", props=["C06"], desc="Index.Get releases the bucket lock before the disk read (the original defect)",
         edits=[(IDX, "\t\trecords, err = idx.readDiskBucket(indexOffset, fileNum)\n\t}\n\tidx.bucketLk.RUnlock()\n\tvhook.Point(\"index.get.unlocked\")\n", "\t\tidx.bucketLk.RUnlock()\n\t\tvhook.Point(\"index.get.unlocked\")\n\t\trecords, err = idx.readDiskBucket(indexOffset, fileNum)\n\t\tidx.bucketLk.RLock()\n\t}\n\tidx.bucketLk.RUnlock()\n")]),
    dict(id="c06-igc-touches-current-file", props=["C06", "C04"], desc="index GC also reaps the file currently written to",
         edits=[(IG, "\tfor fileNum := firstFileNum; fileNum != lastFileNum; {", "\tlastFileNum++\n\tfor fileNum := firstFileNum; fileNum != lastFileNum; {")]),
    dict(id="c06-relocation-unconditional", props=["C06", "C03"], desc="relocation re-points the index without checking the old location",
         edits=[(ST, "\t\t\tupdated, err := idx.UpdateIf(indexKey, oldBlk, newBlk)\n\t\t\tif err != nil {\n\t\t\t\treturn err\n\t\t\t}\n\t\t\tif !updated {\n\t\t\t\treturn errors.New(\"index does not name the relocated record\")\n\t\t\t}\n\t\t\treturn nil\n", "\t\t\treturn idx.Update(indexKey, newBlk)\n")]),
]
