package checks

import (
	"testing"

	"pgregory.net/rapid"
)

const c06Rule = "as C05 sub-campaign (a) (single writer per key) on the multihash primary with small file sizes, plus tasks that run one primary GC cycle (threshold drawn) or one index GC cycle (scan-free on/off), on stores prepared by a generated sequential prefix (overwrites, removals, flushes, earlier GC cycles) so that superseded index records, free spans, low-use primary files and pending freelist entries exist and the GC tasks really mark, merge, truncate, relocate and unlink; the scheduler additionally parks at the named points inside index GC (busy check, mark, merge, truncate, header, unlink), primary GC (freelist hand-over, mark, merge, truncate, relocation put / index update / freelist put, header, unlink) and Index.Get (after releasing the read lock); free-running variant with 1 ms flusher. " +
	"oracle = as C05 (no error, linearizable per key incl. final reads) and additionally no Get may return bytes never written for its key (values are unique per operation); " +
	"non-trivial = a GC task performed >=1 file mutation and overlapped a foreground call in logical time; distinct = distinct canonical JSON of the case"

var c06Points = append([]string{
	"igc.begin", "igc.file", "igc.reap.busyChecked", "igc.reap.mark", "igc.reap.merge", "igc.reap.truncate", "igc.header", "igc.unlink", "igc.free.scanned", "igc.free.header", "igc.free.unlink", "igc.free.truncate",
	"pgc.begin", "pgc.fl.togc", "pgc.fl.handed", "pgc.fl.mark", "pgc.fl.remove", "pgc.freelistDone", "pgc.file", "pgc.reap.merge", "pgc.reap.truncate", "pgc.reap.relocate", "pgc.reap.relocated", "pgc.reap.updated", "pgc.header", "pgc.unlink",
	"fl.togc.rename", "fl.togc.renamed",
}, c05Points...)

func genC06(t *rapid.T, free bool) ConcCase {
	var c ConcCase
	c.Cfg = genConfig(t, cfgGenOpts{onlyMultihash: true, smallBits: true, smallFiles: true})
	if c.Cfg.Bits > 12 {
		c.Cfg.Bits = 8
	}
	c.Cfg.Immutable = false
	c.Keys = genKeys(t, c.Cfg, 3, 8)
	pk := []string{opPut, opRemove, opFlush, opPGC, opIGC}
	pm := genMix(t, pk, []int{8, 2, 3, 1, 1})
	c.Prefix = genOps(t, pm, len(c.Keys), c.Cfg, 4, 24, false)
	c.Prefix = append(c.Prefix, Op{K: opFlush})
	// Mostly start the concurrent phase with cold pools (close/reopen), so
	// that lookups read record lists and records from the files GC works on.
	if weighted(t, "cold", []int{1, 3}) == 1 {
		c.Prefix = append(c.Prefix, Op{K: opReopen, A: rapid.IntRange(0, 1).Draw(t, "reopenmode")})
	}
	c.SingleWriter = true
	if !free && weighted(t, "directed", []int{1, 1}) == 1 {
		// Directed shape: one foreground call is parked at a drawn point
		// inside the operation while a writer, a flush and GC cycles run to
		// completion, then it resumes. This is the shape of every window
		// named in the property; the operations, keys, points and GC kinds
		// are still drawn.
		fg := Op{K: []string{opGet, opHas, opSize, opPut, opRemove}[weighted(t, "fgkind", []int{5, 1, 1, 3, 2})], Key: rapid.IntRange(0, len(c.Keys)-1).Draw(t, "fgkey"), VLen: 5}
		wr := Op{K: []string{opPut, opRemove}[weighted(t, "wrkind", []int{4, 1})], Key: rapid.IntRange(0, len(c.Keys)-1).Draw(t, "wrkey"), VLen: 7}
		c.Tasks = [][]Op{{fg}, {wr}, {{K: opFlush}}}
		ngc := rapid.IntRange(1, 2).Draw(t, "ngc")
		for g := 0; g < ngc; g++ {
			if weighted(t, "gckind", []int{1, 1}) == 0 {
				c.Tasks = append(c.Tasks, []Op{{K: opPGC, A: []int{0, 50, 100}[rapid.IntRange(0, 2).Draw(t, "lowuse")]}})
			} else {
				c.Tasks = append(c.Tasks, []Op{{K: opIGC, A: rapid.IntRange(0, 1).Draw(t, "scanfree")}})
			}
		}
		if len(c.Prefix) == 0 || c.Prefix[len(c.Prefix)-1].K != opReopen {
			c.Prefix = append(c.Prefix, Op{K: opReopen})
		}
		fgPoints := []string{"index.get.unlocked", "get.indexGot", "has.indexGot", "getsize.indexGot", "put.indexGot", "put.primaryChecked", "put.primaryPut", "remove.indexGot", "remove.primaryChecked"}
		c.Sched = SchedSpec{Kind: 0, A: 0, Point: fgPoints[rapid.IntRange(0, len(fgPoints)-1).Draw(t, "fgpoint")], N: 1, Order: []int{1, 2, 3, 4, 0}}
		return c
	}
	kinds := []string{opPut, opGet, opHas, opSize, opRemove}
	genConcTasks(t, &c, kinds, []int{5, 4, 1, 1, 2}, 1, 3, 4)
	ngc := rapid.IntRange(1, 2).Draw(t, "ngc")
	for g := 0; g < ngc; g++ {
		var op Op
		if weighted(t, "gckind", []int{1, 1}) == 0 {
			op = Op{K: opPGC, A: []int{0, 25, 50, 85, 100}[rapid.IntRange(0, 4).Draw(t, "lowuse")]}
		} else {
			op = Op{K: opIGC, A: rapid.IntRange(0, 1).Draw(t, "scanfree")}
		}
		ops := []Op{op}
		if weighted(t, "gcagain", []int{2, 1}) == 1 {
			ops = append(ops, op)
		}
		c.Tasks = append(c.Tasks, ops)
	}
	if weighted(t, "flushtask", []int{1, 1}) == 1 {
		c.Tasks = append(c.Tasks, []Op{{K: opFlush}, {K: opFlush}})
	}
	c.Free = free
	if !free {
		c.Sched = genSched(t, len(c.Tasks), c06Points)
	}
	return c
}

func TestC06(t *testing.T) {
	ev := newEvidence("C06", "exploration", c06Rule)
	defer ev.Write()
	runConcProperty(t, ev, genC06, func(c ConcCase, st concStats) bool {
		if c.Free {
			return st.gcOverlap
		}
		return st.gcMutated && st.gcOverlap
	}, 6000, 5000, 3000, 6000)
}
