package checks

import (
	"testing"

	"pgregory.net/rapid"
)

const c06Rule = "as C05 sub-campaign (a) (single writer per key) on the multihash primary with small file sizes, plus tasks that run one primary GC cycle (threshold drawn) or one index GC cycle (scan-free on/off), on stores prepared by a generated sequential prefix (overwrites, removals, flushes, earlier GC cycles) so that superseded index records, free spans, low-use primary files and pending freelist entries exist and the GC tasks really mark, merge, truncate, relocate and unlink; the scheduler additionally parks at the named points inside index GC (busy check, mark, merge, truncate, header, unlink), primary GC (freelist hand-over, mark, merge, truncate, relocation put / index update / freelist put, header, unlink) and Index.Get (after releasing the read lock); free-running variant with 1 ms flusher. " +
	stressRuleText + " (here: with index GC cycles every 0.1-1 ms: on the CID primary, which has no primary collector, with the full call mix; on the multihash primary with both collectors and keys only ever added - the two configurations in which the recorded finding KF-C06 cannot occur, so nothing is attributed to it); in a fifth of the volume cases a prepared store with low-use primary files gets one or two explicit primary GC cycles that relocate the survivors while 1-4 goroutines put brand-new keys into the same buckets, with no flush during the concurrent phase (nothing is reclaimed under a caller, so KF-C06 cannot occur either); " +
	"oracle = as C05 (no error, linearizable per key incl. final reads) and additionally no Get may return bytes never written for its key (values are unique per operation); " +
	"non-trivial = a GC task performed >=1 file mutation and overlapped a foreground call in logical time; distinct = distinct canonical JSON of the case"

var c06Points = append([]string{
	"igc.begin", "igc.file", "igc.reap.busyChecked", "igc.reap.mark", "igc.reap.merge", "igc.reap.truncate", "igc.header", "igc.unlink", "igc.free.scanned", "igc.free.header", "igc.free.unlink", "igc.free.truncate",
	"pgc.begin", "pgc.fl.togc", "pgc.fl.handed", "pgc.fl.mark", "pgc.fl.remove", "pgc.freelistDone", "pgc.file", "pgc.reap.merge", "pgc.reap.truncate", "pgc.reap.relocate", "pgc.reap.relocated", "pgc.reap.updated", "pgc.header", "pgc.unlink",
	"fl.togc.rename", "fl.togc.renamed",
}, c05Points...)

func genC06(t *rapid.T, free bool) ConcCase {
	var c ConcCase
	c.Cfg = genConfig(t, cfgGenOpts{onlyMultihash: true, smallBits: true, smallFiles: true})
	if c.Cfg.Bits > 12 {
		c.Cfg.Bits = 8
	}
	c.Cfg.Immutable = false
	c.Keys = genKeys(t, c.Cfg, 3, 8)
	pk := []string{opPut, opRemove, opFlush, opPGC, opIGC}
	pm := genMix(t, pk, []int{8, 2, 3, 1, 1})
	c.Prefix = genOps(t, pm, len(c.Keys), c.Cfg, 4, 24, false)
	c.Prefix = append(c.Prefix, Op{K: opFlush})
	// Mostly start the concurrent phase with cold pools (close/reopen), so
	// that lookups read record lists and records from the files GC works on.
	if weighted(t, "cold", []int{1, 3}) == 1 {
		c.Prefix = append(c.Prefix, Op{K: opReopen, A: rapid.IntRange(0, 1).Draw(t, "reopenmode")})
	}
	c.SingleWriter = true
	if !free && weighted(t, "directed", []int{1, 1}) == 1 {
		// Directed shape: one foreground call is parked at a drawn point
		// inside the operation while a writer, a flush and GC cycles run to
		// completion, then it resumes. This is the shape of every window
		// named in the property; the operations, keys, points and GC kinds
		// are still drawn.
		fg := Op{K: []string{opGet, opHas, opSize, opPut, opRemove}[weighted(t, "fgkind", []int{5, 1, 1, 3, 2})], Key: rapid.IntRange(0, len(c.Keys)-1).Draw(t, "fgkey"), VLen: 5}
		wr := Op{K: []string{opPut, opRemove}[weighted(t, "wrkind", []int{4, 1})], Key: rapid.IntRange(0, len(c.Keys)-1).Draw(t, "wrkey"), VLen: 7}
		c.Tasks = [][]Op{{fg}, {wr}, {{K: opFlush}}}
		ngc := rapid.IntRange(1, 2).Draw(t, "ngc")
		for g := 0; g < ngc; g++ {
			if weighted(t, "gckind", []int{1, 1}) == 0 {
				c.Tasks = append(c.Tasks, []Op{{K: opPGC, A: []int{0, 50, 100}[rapid.IntRange(0, 2).Draw(t, "lowuse")]}})
			} else {
				c.Tasks = append(c.Tasks, []Op{{K: opIGC, A: rapid.IntRange(0, 1).Draw(t, "scanfree")}})
			}
		}
		if len(c.Prefix) == 0 || c.Prefix[len(c.Prefix)-1].K != opReopen {
			c.Prefix = append(c.Prefix, Op{K: opReopen})
		}
		fgPoints := []string{"index.get.unlocked", "get.indexGot", "has.indexGot", "getsize.indexGot", "put.indexGot", "put.primaryChecked", "put.primaryPut", "remove.indexGot", "remove.primaryChecked"}
		c.Sched = SchedSpec{Kind: 0, A: 0, Point: fgPoints[rapid.IntRange(0, len(fgPoints)-1).Draw(t, "fgpoint")], N: 1, Order: []int{1, 2, 3, 4, 0}}
		return c
	}
	if !free && weighted(t, "directedFlush", []int{3, 1}) == 1 {
		// Second directed shape: a flush is parked at a drawn point inside
		// the flush pipeline (pool swapped / data written / bucket table not
		// yet updated ...) while GC cycles and a reader run to completion.
		// The prefix ends with unflushed writes so that the flush has work.
		nw := rapid.IntRange(1, 3).Draw(t, "unflushed")
		for i := 0; i < nw; i++ {
			c.Prefix = append(c.Prefix, Op{K: opPut, Key: rapid.IntRange(0, len(c.Keys)-1).Draw(t, "ukey"), VLen: 6 + i})
		}
		rd := Op{K: []string{opGet, opHas, opSize}[rapid.IntRange(0, 2).Draw(t, "rdkind")], Key: rapid.IntRange(0, len(c.Keys)-1).Draw(t, "rdkey")}
		c.Tasks = [][]Op{{{K: opFlush}}}
		ngc := rapid.IntRange(1, 2).Draw(t, "ngc")
		for g := 0; g < ngc; g++ {
			if weighted(t, "gckind", []int{1, 2}) == 0 {
				c.Tasks = append(c.Tasks, []Op{{K: opPGC, A: []int{0, 50, 100}[rapid.IntRange(0, 2).Draw(t, "lowuse")]}})
			} else {
				c.Tasks = append(c.Tasks, []Op{{K: opIGC, A: rapid.IntRange(0, 1).Draw(t, "scanfree")}})
			}
		}
		c.Tasks = append(c.Tasks, []Op{rd, {K: opFlush}, rd})
		flPoints := []string{"mh.flush.swapped", "mh.flush.write", "mh.flush.written", "commit.primaryFlushed", "index.flush.swapped", "index.roll.create", "index.roll.flushOld", "index.flush.write", "index.flush.written", "commit.indexFlushed", "fl.flush.swapped", "fl.flush.write"}
		c.Sched = SchedSpec{Kind: 0, A: 0, Point: flPoints[rapid.IntRange(0, len(flPoints)-1).Draw(t, "flpoint")], N: rapid.IntRange(1, 2).Draw(t, "n"), Order: []int{1, 2, 3, 0}}
		return c
	}
	if !free && weighted(t, "directedDouble", []int{3, 1}) == 1 {
		// Third directed shape (two preemptions): a GC cycle is parked at a
		// drawn point inside the cycle, then a flush runs up to a drawn point
		// inside the flush pipeline, then the GC cycle finishes, then the
		// flush, then a reader. GC and flush exclude each other only at the
		// instant GC reads the current file number.
		nw := rapid.IntRange(1, 3).Draw(t, "unflushed")
		for i := 0; i < nw; i++ {
			c.Prefix = append(c.Prefix, Op{K: opPut, Key: rapid.IntRange(0, len(c.Keys)-1).Draw(t, "ukey"), VLen: 6 + i})
		}
		var gcOp Op
		var gcPoints []string
		if weighted(t, "gckind", []int{1, 2}) == 0 {
			gcOp = Op{K: opPGC, A: []int{0, 50, 100}[rapid.IntRange(0, 2).Draw(t, "lowuse")]}
			gcPoints = []string{"pgc.fl.handed", "pgc.freelistDone", "pgc.file", "pgc.reap.truncate", "pgc.reap.relocate", "pgc.reap.relocated", "pgc.header", "pgc.unlink"}
		} else {
			gcOp = Op{K: opIGC, A: rapid.IntRange(0, 1).Draw(t, "scanfree")}
			gcPoints = []string{"igc.file", "igc.reap.busyChecked", "igc.reap.mark", "igc.reap.truncate", "igc.free.scanned", "igc.header", "igc.unlink"}
		}
		rd := Op{K: []string{opGet, opHas, opSize}[rapid.IntRange(0, 2).Draw(t, "rdkind")], Key: rapid.IntRange(0, len(c.Keys)-1).Draw(t, "rdkey")}
		c.Tasks = [][]Op{{gcOp}, {{K: opFlush}}, {rd}}
		// The states in which written data is not yet reachable through the
		// bucket table / index are the interesting ones: weight them.
		flPoints := []string{"mh.flush.swapped", "mh.flush.written", "commit.primaryFlushed", "index.flush.swapped", "index.roll.create", "index.flush.write", "index.flush.written", "commit.indexFlushed", "fl.flush.swapped"}
		flW := []int{1, 2, 2, 1, 1, 1, 6, 2, 1}
		// Files that hold a couple of records, so that the file GC looks at
		// can be the one the flush appends to.
		if weighted(t, "roomy", []int{1, 2}) == 1 {
			c.Cfg.IdxSize = []uint32{33, 40, 48, 64, 100}[rapid.IntRange(0, 4).Draw(t, "roomyidx")]
			c.Cfg.PrimSize = []uint32{33, 48, 64, 100, 256}[rapid.IntRange(0, 4).Draw(t, "roomyprim")]
		}
		c.Sched = SchedSpec{Kind: 3, A: 0, Point: gcPoints[rapid.IntRange(0, len(gcPoints)-1).Draw(t, "gcpoint")], N: rapid.IntRange(1, 5).Draw(t, "n"),
			B: 1, PointB: flPoints[weighted(t, "flpoint", flW)], NB: 1, Order: []int{2, 0, 1}}
		return c
	}
	kinds := []string{opPut, opGet, opHas, opSize, opRemove}
	genConcTasks(t, &c, kinds, []int{5, 4, 1, 1, 2}, 1, 3, 4)
	ngc := rapid.IntRange(1, 2).Draw(t, "ngc")
	for g := 0; g < ngc; g++ {
		var op Op
		if weighted(t, "gckind", []int{1, 1}) == 0 {
			op = Op{K: opPGC, A: []int{0, 25, 50, 85, 100}[rapid.IntRange(0, 4).Draw(t, "lowuse")]}
		} else {
			op = Op{K: opIGC, A: rapid.IntRange(0, 1).Draw(t, "scanfree")}
		}
		ops := []Op{op}
		if weighted(t, "gcagain", []int{2, 1}) == 1 {
			ops = append(ops, op)
		}
		c.Tasks = append(c.Tasks, ops)
	}
	if weighted(t, "flushtask", []int{1, 1}) == 1 {
		c.Tasks = append(c.Tasks, []Op{{K: opFlush}, {K: opFlush}})
	}
	c.Free = free
	if !free {
		c.Sched = genSched(t, len(c.Tasks), c06Points)
	}
	return c
}

func TestC06(t *testing.T) {
	ev := newEvidence("C06", "exploration", c06Rule)
	defer ev.Write()
	runConcProperty(t, ev, genC06, func(c ConcCase, st concStats) bool {
		if c.Free {
			return st.gcOverlap
		}
		return st.gcMutated && st.gcOverlap
	}, 6000, 5000, 3000, 6000, []int{stressIndexGC, stressAppendOnly, stressIndexGC, stressAppendOnly, stressRelocation}, 3000, 6000)
}
