package checks

import (
	"bytes"
	"fmt"
	"os"
	"path/filepath"
	"testing"

	"pgregory.net/rapid"
)

var c02Kinds = []string{opPut, opRePut, opGet, opHas, opSize, opRemove, opFlush, opIter, opCheckAll, opPGC, opIGC, opReopen}
var c02MaxW = []int{9, 1, 2, 1, 1, 5, 3, 1, 1, 2, 2, 3}

func genC02(t *rapid.T) SeqCase {
	if weighted(t, "focus", []int{3, 1}) == 1 {
		return genIndexGCFocused(t, true)
	}
	var c SeqCase
	c.Cfg = genConfig(t, cfgGenOpts{smallBits: true, smallFiles: true})
	c.Keys = genKeys(t, c.Cfg, 2, 10)
	m := genMix(t, c02Kinds, c02MaxW)
	if m.weights[11] == 0 {
		m.weights[11] = 2
	}
	c.Ops = genOps(t, m, len(c.Keys), c.Cfg, 4, 50, true)
	return c
}

const c02Rule = "rapid-generated histories as in C01 (plus GC cycles) with close/reopen actions at arbitrary positions; at every reopen Close is called twice, the closed directory is copied three times and opened through the saved bucket snapshot, after deleting the snapshot (rescan) and with a snapshot of the wrong size (unusable); failed-flush part: a history in which one explicit Flush is made to fail by the environment (stray file at the next primary file name or stray directory at the next index file name), the cause is removed, the calls go on and the history ends in Close - if Close returns nil the reopened directory must hold exactly what was acknowledged (calls that returned an error excluded), if it returns an error nothing foreign may be read; " +
	"oracle = every copy reads back exactly the reference map (Get/Has/GetSize of every pool key + iteration), the decoded record list of every bucket is identical across the three recovery paths, and the run continues on the store reopened in a drawn mode; a failure counts only if the same history passes with the reopen actions skipped; " +
	"non-trivial = a reopen preceded by an index file roll-over, the removal/overwrite of a flushed key or a GC cycle that changed a file; distinct = distinct canonical JSON of the case"

var reopenSkip = map[string]bool{opReopen: true}

// FFCase: a history in which one explicit Flush is made to fail by the
// environment (a stray file at the name of the next primary file, or a stray
// directory at the name of the next index file), the cause is removed, and the
// history goes on and ends in Close.
type FFCase struct {
	Cfg    Config    `json:"cfg"`
	Keys   []KeySpec `json:"keys"`
	Before []Op      `json:"before"`
	Held   []Op      `json:"held"` // acknowledged, not flushed when the flush fails
	Fault  string    `json:"fault"`
	After  []Op      `json:"after"`
	// AtClose: no explicit Flush is made while the fault is present and the
	// cause is only removed after Close, so that the flush that fails is the
	// one inside Close.
	AtClose bool `json:"at_close,omitempty"`
}

func genFF(t *rapid.T) FFCase {
	var c FFCase
	c.Cfg = genConfig(t, cfgGenOpts{onlyMultihash: true, smallBits: true, smallFiles: true})
	if c.Cfg.Bits > 12 {
		c.Cfg.Bits = 8
	}
	c.Cfg.Immutable = false
	c.Cfg.PrimSize = []uint32{1, 32, 64, 200}[rapid.IntRange(0, 3).Draw(t, "ffprim")]
	c.Cfg.IdxSize = []uint32{1, 32, 64, 200}[rapid.IntRange(0, 3).Draw(t, "ffidx")]
	c.Keys = genKeys(t, c.Cfg, 3, 8)
	m := genMix(t, []string{opPut, opRemove, opFlush}, []int{6, 2, 3})
	c.Before = genOps(t, m, len(c.Keys), c.Cfg, 1, 12, false)
	c.Held = genOps(t, genMix(t, []string{opPut, opRemove}, []int{5, 1}), len(c.Keys), c.Cfg, 1, 6, false)
	c.Fault = []string{"stray-next-primary-file", "stray-dir-at-next-index-file"}[rapid.IntRange(0, 1).Draw(t, "fffault")]
	c.After = genOps(t, m, len(c.Keys), c.Cfg, 0, 8, false)
	if weighted(t, "atclose", []int{2, 1}) == 1 {
		c.AtClose = true
		c.After = nil
	}
	return c
}

// runFF returns whether the flush did fail, and a violation if Close returned
// nil and the reopened directory does not hold what was acknowledged.
func runFF(c FFCase) (failed bool, v *Violation) {
	dir := newScratch("ff")
	defer os.RemoveAll(dir)
	s, err := openStore(dir, c.Cfg)
	if err != nil {
		panic(infraError{err})
	}
	model := map[int][]byte{}
	ever := map[int][][]byte{}
	n := 0
	apply := func(ops []Op) {
		for _, op := range ops {
			n++
			k := op.Key % len(c.Keys)
			key := c.Keys[k].Encode(c.Cfg.Primary, false)
			switch op.K {
			case opPut, opRePut:
				val := valueFor(n, op.VLen, false)
				ever[k] = append(ever[k], val)
				if s.Put(key, val) == nil {
					model[k] = val
				}
			case opRemove:
				if ok, err := s.Remove(key); err == nil && ok {
					delete(model, k)
				}
			case opFlush:
				s.Flush()
			}
		}
	}
	return failed, guard(-1, "failed-flush", func() *Violation {
		apply(c.Before)
		s.Flush()
		var strays []string
		base, asDir := dataBase, false
		if c.Fault == "stray-dir-at-next-index-file" {
			base, asDir = idxBase, true
		}
		nums := numberedFiles(dir, base)
		next := uint32(0)
		if len(nums) > 0 {
			next = nums[len(nums)-1] + 1
		}
		for i := next; i < next+3; i++ {
			name := filepath.Join(dir, fmt.Sprintf("%s.%d", base, i))
			if asDir {
				os.Mkdir(name, 0o755)
			} else {
				os.WriteFile(name, []byte("stray"), 0o644)
			}
			strays = append(strays, name)
		}
		apply(c.Held)
		var ferr, cerr error
		unstray := func() {
			for _, name := range strays {
				if fi, err := os.Lstat(name); err == nil && (fi.IsDir() || fi.Size() == 5) {
					if b, _ := os.ReadFile(name); fi.IsDir() || string(b) == "stray" {
						os.Remove(name)
					}
				}
			}
		}
		if c.AtClose {
			cerr = s.Close()
			ferr = cerr
			failed = cerr != nil
			unstray()
		} else {
			ferr = s.Flush()
			failed = ferr != nil
			unstray()
			apply(c.After)
			cerr = s.Close()
		}
		s2, err := openStore(dir, c.Cfg)
		if err != nil {
			if cerr == nil && failed {
				return viol("reopen-fails-after-nil-close|after-failed-flush|"+errClass(err), -1, "one Flush failed (%v), its cause was removed, Close returned nil, and the directory cannot be reopened: %v", ferr, err)
			}
			return nil
		}
		defer closeQuietly(s2)
		for k, ks := range c.Keys {
			got, found, err := s2.Get(ks.Encode(c.Cfg.Primary, false))
			if cerr != nil {
				// Close reported the failure: what was acknowledged may be
				// missing, but nothing foreign may be read.
				if err == nil && found {
					ok := false
					for _, val := range ever[k] {
						if bytes.Equal(val, got) {
							ok = true
						}
					}
					if !ok {
						return viol("foreign-bytes-after-failed-flush|after-failed-flush|", -1, "key %d reads %s which was never put for it (Close had returned %v)", k, shortBytes(got), cerr)
					}
				}
				continue
			}
			want, present := model[k]
			sym := ""
			switch {
			case err != nil:
				sym = "error"
			case present && !found:
				sym = "absent-but-acknowledged"
			case !present && found:
				sym = "present-but-removed"
			case present && !bytes.Equal(got, want):
				sym = "other-value"
			}
			if sym != "" {
				what := "no Flush failed"
				if c.AtClose {
					what = fmt.Sprintf("the environment (%s) stood in the way of the flush inside Close", c.Fault)
				} else if failed {
					what = fmt.Sprintf("one explicit Flush failed (%v), its cause (%s) was removed and the calls went on", ferr, c.Fault)
				}
				return viol("contents-differ-after-nil-close|after-failed-flush|"+sym, -1, "%s; Close returned nil, but after reopening key %d reads (%s, found=%v, err=%v) instead of (%s, present=%v)", what, k, shortBytes(got), found, err, shortBytes(want), present)
			}
		}
		return nil
	})
}

func TestC02(t *testing.T) {
	ev := newEvidence("C02", "exploration", c02Rule)
	defer ev.Write()
	opts := func() seqOpts { return seqOpts{FullReopen: true, TrackGC: true} }
	attribute := func(c SeqCase, v *Violation) bool {
		_, v2 := runSeq(c, seqOpts{Skip: reopenSkip})
		if v2 != nil {
			ev.Class("foreign-failure-without-reopen", 1)
			return false
		}
		return true
	}
	nt := func(st SeqStats) bool { return st.ReopenAfterWork && st.Reopens[1] > 0 }
	if envReplay != "" && bytes.Contains(readReplayRaw(envReplay).Case, []byte(`"held"`)) {
		var c FFCase
		readReplay(envReplay, &c)
		_, v := runFF(c)
		ev.Record(c, true)
		if v != nil {
			ev.Report(v, c)
			t.Fatalf("replay: %v", v)
		}
		return
	}
	if envReplay != "" {
		var c SeqCase
		readReplay(envReplay, &c)
		for i := 0; i < 20; i++ {
			st, v := runSeq(c, opts())
			ev.Record(c, true, seqClasses(c, st)...)
			if v != nil && attribute(c, v) {
				ev.Report(v, c)
				t.Fatalf("replay: %v", v)
			}
		}
		return
	}
	for _, f := range regressFiles("C02") {
		var c SeqCase
		readReplay(f, &c)
		for i := 0; i < 3; i++ {
			st, v := runSeq(c, opts())
			ev.Record(c, true, append(seqClasses(c, st), "regression-case")...)
			if v != nil && attribute(c, v) && ev.Report(v, c) {
				t.Fatalf("regression case %s: %v", f, v)
			}
		}
	}
	setRapidChecks(budget(12000, 30000))
	rapid.Check(t, func(rt *rapid.T) {
		if pastDeadline() {
			ev.Skip()
			return
		}
		c := genC02(rt)
		st, v := runSeq(c, opts())
		ev.Record(c, nt(st), seqClasses(c, st)...)
		if v != nil && attribute(c, v) && ev.Report(v, c) {
			rt.Fatalf("%v", v)
		}
	})
	if t.Failed() {
		return
	}
	// A Flush that fails in between: "after Close returns without error"
	// does not say that every earlier call succeeded.
	setRapidChecks(budget(600, 2000))
	rapid.Check(t, func(rt *rapid.T) {
		if pastDeadline() {
			ev.Skip()
			return
		}
		c := genFF(rt)
		failed, v := runFF(c)
		cl := []string{"failed-flush-in-the-history"}
		if failed && c.AtClose {
			cl = append(cl, "failed-flush-in-the-history:close-did-fail("+c.Fault+")")
		} else if failed {
			cl = append(cl, "failed-flush-in-the-history:flush-did-fail("+c.Fault+")")
		}
		ev.Record(c, failed, cl...)
		if v != nil && ev.Report(v, c) {
			rt.Fatalf("%v", v)
		}
	})
	ev.finish(t)
}
