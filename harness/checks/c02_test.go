package checks

import (
	"testing"

	"pgregory.net/rapid"
)

var c02Kinds = []string{opPut, opRePut, opGet, opHas, opSize, opRemove, opFlush, opIter, opCheckAll, opPGC, opIGC, opReopen}
var c02MaxW = []int{9, 1, 2, 1, 1, 5, 3, 1, 1, 2, 2, 3}

func genC02(t *rapid.T) SeqCase {
	if weighted(t, "focus", []int{3, 1}) == 1 {
		return genIndexGCFocused(t, true)
	}
	var c SeqCase
	c.Cfg = genConfig(t, cfgGenOpts{smallBits: true, smallFiles: true})
	c.Keys = genKeys(t, c.Cfg, 2, 10)
	m := genMix(t, c02Kinds, c02MaxW)
	if m.weights[11] == 0 {
		m.weights[11] = 2
	}
	c.Ops = genOps(t, m, len(c.Keys), c.Cfg, 4, 50, true)
	return c
}

const c02Rule = "rapid-generated histories as in C01 (plus GC cycles) with close/reopen actions at arbitrary positions; at every reopen Close is called twice, the closed directory is copied three times and opened through the saved bucket snapshot, after deleting the snapshot (rescan) and with a snapshot of the wrong size (unusable); " +
	"oracle = every copy reads back exactly the reference map (Get/Has/GetSize of every pool key + iteration), the decoded record list of every bucket is identical across the three recovery paths, and the run continues on the store reopened in a drawn mode; a failure counts only if the same history passes with the reopen actions skipped; " +
	"non-trivial = a reopen preceded by an index file roll-over, the removal/overwrite of a flushed key or a GC cycle that changed a file; distinct = distinct canonical JSON of the case"

var reopenSkip = map[string]bool{opReopen: true}

func TestC02(t *testing.T) {
	ev := newEvidence("C02", "exploration", c02Rule)
	defer ev.Write()
	opts := func() seqOpts { return seqOpts{FullReopen: true, TrackGC: true} }
	attribute := func(c SeqCase, v *Violation) bool {
		_, v2 := runSeq(c, seqOpts{Skip: reopenSkip})
		if v2 != nil {
			ev.Class("foreign-failure-without-reopen", 1)
			return false
		}
		return true
	}
	nt := func(st SeqStats) bool { return st.ReopenAfterWork && st.Reopens[1] > 0 }
	if envReplay != "" {
		var c SeqCase
		readReplay(envReplay, &c)
		for i := 0; i < 20; i++ {
			st, v := runSeq(c, opts())
			ev.Record(c, true, seqClasses(c, st)...)
			if v != nil && attribute(c, v) {
				ev.Report(v, c)
				t.Fatalf("replay: %v", v)
			}
		}
		return
	}
	for _, f := range regressFiles("C02") {
		var c SeqCase
		readReplay(f, &c)
		for i := 0; i < 3; i++ {
			st, v := runSeq(c, opts())
			ev.Record(c, true, append(seqClasses(c, st), "regression-case")...)
			if v != nil && attribute(c, v) && ev.Report(v, c) {
				t.Fatalf("regression case %s: %v", f, v)
			}
		}
	}
	setRapidChecks(budget(12000, 30000))
	rapid.Check(t, func(rt *rapid.T) {
		if pastDeadline() {
			ev.Skip()
			return
		}
		c := genC02(rt)
		st, v := runSeq(c, opts())
		ev.Record(c, nt(st), seqClasses(c, st)...)
		if v != nil && attribute(c, v) && ev.Report(v, c) {
			rt.Fatalf("%v", v)
		}
	})
	ev.finish(t)
}
