package checks

// Independent reader of the on-disk formats (index log, bucket snapshot,
// headers, multihash / CID primary files, freelist). It shares no code with
// the repository; the formats are re-implemented from their description:
//
//   index log record : [u32 size | deleted bit][u32 bucket][entries]
//   entry            : [u64 offset][u32 size][u8 keylen][key bytes]
//   primary record   : [u32 size | deleted bit][multihash or CID][value]
//   freelist entry   : [u64 offset][u32 size]
//   bucket snapshot  : 2^bits x u64 positions
//   position         : file number * file size limit + local offset of the
//                      record data (4 bytes after the record start); the
//                      file is chosen by where the record starts

import (
	"bytes"
	"encoding/binary"
	"encoding/json"
	"fmt"
	"os"
	"path/filepath"
	"sort"
	"strings"
)

const fsckDeleted = uint32(1) << 31

type fsckEntry struct {
	Offset uint64
	Size   uint32
	Key    []byte
}

type fsckIndexRecord struct {
	File    uint32
	Start   int64 // offset of the size prefix in the file
	Size    uint32
	Deleted bool
	Bucket  uint32
	Entries []fsckEntry
	Bad     string // parse problem of the entries
}

type fsckResult struct {
	IndexFiles     int
	PrimaryFiles   int
	DeletedIndex   int
	DeletedPrimary int
	MultiEntry     int // buckets with >= 2 entries
	LiveEntries    int
	FreeEntries    int
}

type fsckInput struct {
	Dir      string
	Cfg      Config
	Live     []uint64 // live bucket table (nil if the store is closed)
	UseSnap  bool     // require the snapshot file and compare it
	PoolsHot bool     // unflushed data exists: the live table lags behind the pools (allowed)
}

func u32(b []byte) uint32 { return binary.LittleEndian.Uint32(b) }
func u64(b []byte) uint64 { return binary.LittleEndian.Uint64(b) }

func effectiveSize(v uint32) uint64 {
	if v == 0 {
		return 1 << 30
	}
	return uint64(v)
}

func readJSONHeader(path string) (map[string]interface{}, error) {
	b, err := os.ReadFile(path)
	if err != nil {
		return nil, err
	}
	var m map[string]interface{}
	if err = json.Unmarshal(b, &m); err != nil {
		return nil, fmt.Errorf("%s: %w (content %q)", filepath.Base(path), err, b)
	}
	return m, nil
}

func hdrInt(m map[string]interface{}, k string) uint64 {
	f, _ := m[k].(float64)
	return uint64(f)
}

// numberedFiles returns the numbers N of the files base.N in dir.
func numberedFiles(dir, base string) []uint32 {
	ents, _ := os.ReadDir(dir)
	var out []uint32
	for _, e := range ents {
		n := e.Name()
		if strings.HasPrefix(n, base+".") && isNumeric(n[len(base)+1:]) {
			var v uint64
			fmt.Sscanf(n[len(base)+1:], "%d", &v)
			out = append(out, uint32(v))
		}
	}
	sort.Slice(out, func(i, j int) bool { return out[i] < out[j] })
	return out
}

func parseEntries(data []byte) ([]fsckEntry, string) {
	var out []fsckEntry
	p := 0
	for p < len(data) {
		if p+13 > len(data) {
			return out, fmt.Sprintf("truncated entry header at %d of %d", p, len(data))
		}
		kl := int(data[p+12])
		if p+13+kl > len(data) {
			return out, fmt.Sprintf("truncated entry key at %d of %d", p, len(data))
		}
		out = append(out, fsckEntry{u64(data[p:]), u32(data[p+8:]), data[p+13 : p+13+kl]})
		p += 13 + kl
	}
	return out, ""
}

// parseIndexFile parses one index log file. A torn tail is reported through
// the returned tail string, not as an error: whether it is allowed depends on
// the caller.
func parseIndexFile(path string, fileNum uint32) (recs []fsckIndexRecord, tail string, err error) {
	data, err := os.ReadFile(path)
	if err != nil {
		return nil, "", err
	}
	var pos int64
	for pos < int64(len(data)) {
		if pos+4 > int64(len(data)) {
			return recs, fmt.Sprintf("torn size prefix at %d (file size %d)", pos, len(data)), nil
		}
		raw := u32(data[pos:])
		size := raw &^ fsckDeleted
		rec := fsckIndexRecord{File: fileNum, Start: pos, Size: size, Deleted: raw&fsckDeleted != 0}
		if pos+4+int64(size) > int64(len(data)) {
			if rec.Deleted {
				// A deleted span may have been cut by truncation only at its
				// start, never in the middle.
				return recs, fmt.Sprintf("deleted record at %d of size %d exceeds file size %d", pos, size, len(data)), nil
			}
			return recs, fmt.Sprintf("torn record at %d of size %d (file size %d)", pos, size, len(data)), nil
		}
		if !rec.Deleted {
			body := data[pos+4 : pos+4+int64(size)]
			if len(body) < 4 {
				rec.Bad = "record shorter than its bucket tag"
			} else {
				rec.Bucket = u32(body)
				rec.Entries, rec.Bad = parseEntries(body[4:])
			}
		}
		recs = append(recs, rec)
		pos += 4 + int64(size)
	}
	return recs, "", nil
}

type fsckPrimaryRecord struct {
	Size    uint32
	Deleted bool
	Data    []byte
}

// readPrimaryRecord reads the record at a local offset of a primary file.
func readPrimaryRecord(data []byte, local uint64) (fsckPrimaryRecord, error) {
	if local+4 > uint64(len(data)) {
		return fsckPrimaryRecord{}, fmt.Errorf("record start %d beyond file size %d", local, len(data))
	}
	raw := u32(data[local:])
	r := fsckPrimaryRecord{Size: raw &^ fsckDeleted, Deleted: raw&fsckDeleted != 0}
	if local+4+uint64(r.Size) > uint64(len(data)) {
		return r, fmt.Errorf("record at %d of size %d exceeds file size %d", local, r.Size, len(data))
	}
	r.Data = data[local+4 : local+4+uint64(r.Size)]
	return r, nil
}

func uvarint(b []byte) (uint64, int) {
	var x uint64
	var s uint
	for i, c := range b {
		if i == 9 {
			return 0, -1
		}
		if c < 0x80 {
			return x | uint64(c)<<s, i + 1
		}
		x |= uint64(c&0x7f) << s
		s += 7
	}
	return 0, -1
}

// splitMultihash returns the digest and total encoded length of the
// multihash at the start of b.
func splitMultihash(b []byte) (digest []byte, n int, err error) {
	_, n1 := uvarint(b)
	if n1 <= 0 {
		return nil, 0, fmt.Errorf("bad multihash code varint")
	}
	l, n2 := uvarint(b[n1:])
	if n2 <= 0 {
		return nil, 0, fmt.Errorf("bad multihash length varint")
	}
	end := n1 + n2 + int(l)
	if end > len(b) {
		return nil, 0, fmt.Errorf("multihash digest length %d exceeds record", l)
	}
	return b[n1+n2 : end], end, nil
}

// splitKey returns the digest of the key stored at the start of a primary
// record: a multihash, or a CID (v0 = bare sha2-256 multihash, v1 = version
// varint, codec varint, multihash).
func splitKey(primaryIsCID bool, b []byte) ([]byte, error) {
	if !primaryIsCID {
		d, _, err := splitMultihash(b)
		return d, err
	}
	if len(b) >= 34 && b[0] == 0x12 && b[1] == 0x20 {
		return b[2:34], nil
	}
	v, n1 := uvarint(b)
	if n1 <= 0 || v != 1 {
		return nil, fmt.Errorf("bad CID version")
	}
	_, n2 := uvarint(b[n1:])
	if n2 <= 0 {
		return nil, fmt.Errorf("bad CID codec")
	}
	d, _, err := splitMultihash(b[n1+n2:])
	return d, err
}

func parseFreelist(path string) ([]fsckEntry, error) {
	b, err := os.ReadFile(path)
	if err != nil {
		if os.IsNotExist(err) {
			return nil, nil
		}
		return nil, err
	}
	var out []fsckEntry
	for p := 0; p+12 <= len(b); p += 12 {
		out = append(out, fsckEntry{Offset: u64(b[p:]), Size: u32(b[p+8:])})
	}
	return out, nil
}

// fsck verifies the clauses of the consistency invariant on a quiescent
// directory. It returns the first inconsistency as (clause, detail).
func fsck(in fsckInput) (res fsckResult, clause, detail string) {
	dir, cfg := in.Dir, in.Cfg
	isCID := cfg.Primary == "CID"
	fail := func(c, f string, a ...interface{}) (fsckResult, string, string) {
		return res, c, fmt.Sprintf(f, a...)
	}

	ih, err := readJSONHeader(filepath.Join(dir, idxBase+".info"))
	if err != nil {
		return fail("index-header-unreadable", "%v", err)
	}
	bits := uint8(hdrInt(ih, "BucketsBits"))
	M := hdrInt(ih, "MaxFileSize")
	firstIdx := uint32(hdrInt(ih, "FirstFile"))
	if bits != cfg.Bits || M != effectiveSize(cfg.IdxSize) {
		return fail("index-header-config", "header says bits=%d maxFileSize=%d, store was opened with bits=%d size=%d", bits, M, cfg.Bits, effectiveSize(cfg.IdxSize))
	}

	// Parse every index file.
	files := map[uint32][]fsckIndexRecord{}
	byData := map[uint32]map[int64]*fsckIndexRecord{}
	nums := numberedFiles(dir, idxBase)
	res.IndexFiles = len(nums)
	for _, n := range nums {
		recs, tail, err := parseIndexFile(filepath.Join(dir, fmt.Sprintf("%s.%d", idxBase, n)), n)
		if err != nil {
			return fail("index-file-unreadable", "%v", err)
		}
		// A torn tail is not mentioned by the invariant; what matters is
		// that no bucket points into it, which is checked below.
		_ = tail
		files[n] = recs
		byData[n] = map[int64]*fsckIndexRecord{}
		for i := range recs {
			byData[n][recs[i].Start+4] = &recs[i]
			if recs[i].Deleted {
				res.DeletedIndex++
			}
		}
	}

	// Own rescan: newest complete non-deleted record per bucket, from the
	// header's first file on, in file number order.
	nb := 1 << bits
	scan := make([]uint64, nb)
	for _, n := range nums {
		if n < firstIdx {
			continue
		}
		for _, r := range files[n] {
			if r.Deleted || r.Bad != "" {
				continue
			}
			if int(r.Bucket) < nb {
				scan[r.Bucket] = uint64(n)*M + uint64(r.Start+4)
			}
		}
	}

	table := scan
	tableName := "rescan"
	if in.Live != nil {
		if len(in.Live) != nb {
			return fail("live-table-size", "live table has %d buckets, want %d", len(in.Live), nb)
		}
		for b := 0; b < nb; b++ {
			if in.Live[b] != scan[b] {
				return fail("live-vs-rescan", "bucket %d: live table has position %d, rescan of the files gives %d", b, in.Live[b], scan[b])
			}
		}
		table, tableName = in.Live, "live"
	}
	if in.UseSnap {
		sb, err := os.ReadFile(filepath.Join(dir, idxBase+".buckets"))
		if err != nil {
			return fail("snapshot-missing", "%v", err)
		}
		if len(sb) != 8*nb {
			return fail("snapshot-size", "snapshot has %d bytes, want %d", len(sb), 8*nb)
		}
		for b := 0; b < nb; b++ {
			if p := u64(sb[8*b:]); p != scan[b] {
				return fail("snapshot-vs-rescan", "bucket %d: snapshot has position %d, rescan of the files gives %d", b, p, scan[b])
			}
		}
	}

	// Primary files.
	P := effectiveSize(cfg.PrimSize)
	var firstPrim uint32
	primData := map[uint32][]byte{}
	if isCID {
		b, err := os.ReadFile(filepath.Join(dir, dataBase))
		if err != nil {
			return fail("primary-unreadable", "%v", err)
		}
		primData[0] = b
		res.PrimaryFiles = 1
	} else {
		ph, err := readJSONHeader(filepath.Join(dir, dataBase+".info"))
		if err != nil {
			return fail("primary-header-unreadable", "%v", err)
		}
		firstPrim = uint32(hdrInt(ph, "FirstFile"))
		if hdrInt(ph, "MaxFileSize") != P {
			return fail("primary-header-config", "header says maxFileSize=%d, store was opened with %d", hdrInt(ph, "MaxFileSize"), P)
		}
		for _, n := range numberedFiles(dir, dataBase) {
			b, err := os.ReadFile(filepath.Join(dir, fmt.Sprintf("%s.%d", dataBase, n)))
			if err != nil {
				return fail("primary-unreadable", "%v", err)
			}
			primData[n] = b
			res.PrimaryFiles++
			for p := uint64(0); p+4 <= uint64(len(b)); {
				raw := u32(b[p:])
				if raw&fsckDeleted != 0 {
					res.DeletedPrimary++
				}
				p += 4 + uint64(raw&^fsckDeleted)
			}
		}
	}

	free := map[uint64]string{}
	for _, name := range []string{idxBase + ".free", idxBase + ".free.gc"} {
		ents, err := parseFreelist(filepath.Join(dir, name))
		if err != nil {
			return fail("freelist-unreadable", "%v", err)
		}
		for _, e := range ents {
			free[e.Offset] = name
			res.FreeEntries++
		}
	}

	strip := int(bits / 8)
	seenLoc := map[uint64]uint32{}
	for b := 0; b < nb; b++ {
		pos := table[b]
		if pos == 0 {
			continue
		}
		if pos < 4 {
			return fail("bucket-position", "bucket %d (%s table) has impossible position %d", b, tableName, pos)
		}
		fn := uint32((pos - 4) / M)
		local := int64(pos - uint64(fn)*M)
		if fn < firstIdx {
			return fail("index-first-file", "bucket %d points into index file %d but the header's first file is %d", b, fn, firstIdx)
		}
		recsOf, ok := byData[fn]
		if !ok {
			return fail("bucket-file-missing", "bucket %d points into index file %d which does not exist", b, fn)
		}
		rec, ok := recsOf[local]
		if !ok {
			return fail("bucket-not-at-record", "bucket %d points at offset %d of index file %d where no complete record starts", b, local, fn)
		}
		if rec.Deleted {
			return fail("bucket-record-deleted", "bucket %d points at a record of index file %d (offset %d) that is marked deleted", b, fn, local)
		}
		if rec.Bad != "" {
			return fail("bucket-record-malformed", "bucket %d: record in index file %d at %d: %s", b, fn, local, rec.Bad)
		}
		if rec.Bucket != uint32(b) {
			return fail("bucket-tag", "bucket %d points at a record tagged with bucket %d (index file %d offset %d)", b, rec.Bucket, fn, local)
		}
		if len(rec.Entries) >= 2 {
			res.MultiEntry++
		}
		for i, e := range rec.Entries {
			res.LiveEntries++
			if i > 0 {
				prev := rec.Entries[i-1]
				if bytes.Compare(prev.Key, e.Key) >= 0 {
					return fail("entries-unsorted", "bucket %d: entry %d key %x is not greater than entry %d key %x", b, i, e.Key, i-1, prev.Key)
				}
			}
			for j, o := range rec.Entries {
				if j != i && bytes.HasPrefix(e.Key, o.Key) {
					return fail("entries-not-prefix-free", "bucket %d: stored key %x is a prefix of stored key %x", b, o.Key, e.Key)
				}
			}
			if ob, dup := seenLoc[e.Offset]; dup {
				return fail("entries-duplicate-location", "primary location %d is named by entries of bucket %d and bucket %d", e.Offset, ob, b)
			}
			seenLoc[e.Offset] = uint32(b)
			if name, isFree := free[e.Offset]; isFree {
				return fail("live-location-on-freelist", "bucket %d entry %x names primary location %d which is listed in %s", b, e.Key, e.Offset, name)
			}
			// The primary record.
			var pfn uint32
			plocal := e.Offset
			if !isCID {
				pfn = uint32(e.Offset / P)
				plocal = e.Offset - uint64(pfn)*P
				if pfn < firstPrim {
					return fail("primary-first-file", "bucket %d entry %x names primary file %d but the header's first file is %d", b, e.Key, pfn, firstPrim)
				}
			}
			pd, ok := primData[pfn]
			if !ok {
				return fail("entry-primary-file-missing", "bucket %d entry %x names primary file %d which does not exist", b, e.Key, pfn)
			}
			pr, err := readPrimaryRecord(pd, plocal)
			if err != nil {
				return fail("entry-primary-incomplete", "bucket %d entry %x -> primary file %d: %v", b, e.Key, pfn, err)
			}
			if pr.Deleted {
				return fail("entry-primary-deleted", "bucket %d entry %x names primary location %d (file %d) which is marked deleted", b, e.Key, e.Offset, pfn)
			}
			if pr.Size != e.Size {
				return fail("entry-primary-size", "bucket %d entry %x records size %d, primary record at %d has size %d", b, e.Key, e.Size, e.Offset, pr.Size)
			}
			digest, err := splitKey(isCID, pr.Data)
			if err != nil {
				return fail("entry-primary-key", "bucket %d entry %x: primary record at %d: %v", b, e.Key, e.Offset, err)
			}
			if len(digest) < 4 || bucketOf(digest, bits) != uint32(b) {
				return fail("entry-wrong-bucket", "bucket %d entry %x names a primary record whose digest %x belongs to another bucket", b, e.Key, digest)
			}
			if !bytes.HasPrefix(digest[strip:], e.Key) {
				return fail("entry-prefix-mismatch", "bucket %d entry stored prefix %x is not a prefix of the digest remainder %x of its primary record", b, e.Key, digest[strip:])
			}
		}
	}
	return res, "", ""
}
