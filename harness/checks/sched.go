package checks

import (
	"bytes"
	"fmt"
	"runtime"
	"strconv"
	"strings"
	"sync"
	"sync/atomic"
	"time"

	"github.com/ipld/go-storethehash/store/vhook"
)

// Cooperative scheduler on top of the named points. Tasks are goroutines of
// the harness that call into the real store; at every named point the
// calling task parks until the scheduler resumes it. The code under test
// runs with its real locks: if a resumed task does not reach its next point
// within a short time it is waiting for something a parked task holds (or
// for a channel), it is marked blocked and another task is chosen. That
// timeout only influences which legal execution is produced, never a verdict.

func goroutineID() int64 {
	var buf [64]byte
	n := runtime.Stack(buf[:], false)
	// "goroutine 123 ["
	s := buf[len("goroutine "):n]
	i := bytes.IndexByte(s, ' ')
	if i < 0 {
		return -1
	}
	id, _ := strconv.ParseInt(string(s[:i]), 10, 64)
	return id
}

type taskState int

const (
	tsParked taskState = iota
	tsRunning
	tsBlocked
	tsDone
)

type schedTask struct {
	id      int
	name    string
	gid     int64
	resume  chan struct{}
	state   taskState
	point   string // where it is parked
	adopted bool   // a goroutine of the store itself (e.g. the flusher)
	hits    map[string]int
	steps   int
	// finished is closed when a spawned task's function has returned.
	finished chan struct{}
}

type schedEvent struct {
	t     *schedTask
	point string
	done  bool
}

// policy decides which parked task runs next.
type policy interface {
	pick(cands []*schedTask, step int) *schedTask
}

type scheduler struct {
	mu         sync.Mutex
	byGid      map[int64]*schedTask
	tasks      []*schedTask
	events     chan schedEvent
	free       atomic.Bool               // points no longer park anybody
	adopt      func(point string) string // returns a task name to adopt an unknown goroutine at this point, "" otherwise
	blockT     time.Duration
	clock      atomic.Int64
	freed      chan struct{} // closed by setFree
	freeOnce   sync.Once
	trace      []string
	arrivals   []string // task@point in order of arrival at the points
	preempt    int      // number of resumptions that switched away from a task parked inside an operation
	inOpSwitch bool
	// lateArrivals counts events of tasks that had been marked blocked.
	lateArrivals int
}

func newScheduler() *scheduler {
	return &scheduler{byGid: map[int64]*schedTask{}, events: make(chan schedEvent, 64), blockT: 4 * time.Millisecond, freed: make(chan struct{})}
}

func (s *scheduler) now() int64 { return s.clock.Add(1) }

func (s *scheduler) install() { vhook.SetHandler(s.atPoint) }

func (s *scheduler) uninstall() {
	s.setFree()
	vhook.SetHandler(nil)
}

// setFree ends all parking, now and for ever: tasks that are parked, about to
// park, or adopted at this very moment all continue. (A task that had passed
// the free check just before release() and was not in its snapshot used to
// stay parked for ever - with the store's flusher adopted that way, Close
// never returned and the test process hung.)
func (s *scheduler) setFree() {
	s.free.Store(true)
	s.freeOnce.Do(func() { close(s.freed) })
}

// park waits until the scheduler resumes the task or everything is set free.
func (s *scheduler) park(t *schedTask, e schedEvent) {
	select {
	case s.events <- e:
	case <-s.freed:
		return
	}
	select {
	case <-t.resume:
	case <-s.freed:
	}
}

// atPoint is the handler of the named points.
func (s *scheduler) atPoint(name string) {
	if s.free.Load() {
		return
	}
	gid := goroutineID()
	s.mu.Lock()
	t := s.byGid[gid]
	if t == nil && s.adopt != nil {
		if nm := s.adopt(name); nm != "" {
			t = &schedTask{id: len(s.tasks), name: nm, gid: gid, resume: make(chan struct{}, 1), adopted: true, hits: map[string]int{}, state: tsRunning}
			s.tasks = append(s.tasks, t)
			s.byGid[gid] = t
		}
	}
	s.mu.Unlock()
	if t == nil {
		return
	}
	s.park(t, schedEvent{t: t, point: name})
}

// spawn starts a task running fn. The task parks before its first step.
func (s *scheduler) spawn(name string, fn func(yield func(point string))) *schedTask {
	t := &schedTask{id: -1, name: name, resume: make(chan struct{}, 1), hits: map[string]int{}, state: tsRunning, finished: make(chan struct{})}
	s.mu.Lock()
	t.id = len(s.tasks)
	s.tasks = append(s.tasks, t)
	s.mu.Unlock()
	ready := make(chan struct{})
	go func() {
		t.gid = goroutineID()
		s.mu.Lock()
		s.byGid[t.gid] = t
		s.mu.Unlock()
		close(ready)
		yield := func(point string) {
			if s.free.Load() {
				return
			}
			s.park(t, schedEvent{t: t, point: point})
		}
		yield("task.start")
		func() {
			defer close(t.finished)
			fn(yield)
		}()
		done := schedEvent{t: t, done: true}
		select {
		case s.events <- done:
		default:
			select {
			case s.events <- done:
			case <-s.freed: // nobody listens any more
			}
		}
	}()
	<-ready
	return t
}

func (s *scheduler) absorb(e schedEvent) {
	if e.t.state == tsBlocked {
		// A task that had been given up as waiting moved on by itself: from
		// the moment it was given up it ran next to whatever was resumed
		// since. Still a real execution, but no longer one task at a time.
		s.lateArrivals++
	}
	if e.done {
		e.t.state = tsDone
		return
	}
	e.t.state = tsParked
	e.t.point = e.point
	e.t.hits[e.point]++
	if len(s.arrivals) < 4000 {
		s.arrivals = append(s.arrivals, e.t.name+"@"+e.point)
	}
}

// run drives the tasks until every non-adopted task is done, or until
// nothing can move any more. It returns false in the latter case.
func (s *scheduler) run(p policy, maxSteps int) (allDone bool) {
	// Collect the initial parking of every spawned task.
	waitFor := func(t *schedTask, d time.Duration) bool {
		timer := time.NewTimer(d)
		defer timer.Stop()
		for {
			select {
			case e := <-s.events:
				s.absorb(e)
				if e.t == t {
					return true
				}
			case <-timer.C:
				return false
			}
		}
	}
	s.mu.Lock()
	initial := append([]*schedTask{}, s.tasks...)
	s.mu.Unlock()
	for _, t := range initial {
		if t.state == tsRunning {
			waitFor(t, time.Second)
		}
	}
	var last *schedTask
	for step := 0; step < maxSteps; step++ {
		// Drain events of blocked tasks that moved on meanwhile.
	drain:
		for {
			select {
			case e := <-s.events:
				s.absorb(e)
			default:
				break drain
			}
		}
		s.mu.Lock()
		all := append([]*schedTask{}, s.tasks...)
		s.mu.Unlock()
		var cands []*schedTask
		pending, blocked := 0, 0
		for _, t := range all {
			switch t.state {
			case tsParked:
				cands = append(cands, t)
				if !t.adopted {
					pending++
				}
			case tsRunning, tsBlocked:
				if !t.adopted {
					pending++
				}
				blocked++
			}
		}
		if pending == 0 {
			return true
		}
		if len(cands) == 0 {
			// Everything alive is blocked: wait for an event for a while.
			timer := time.NewTimer(200 * time.Millisecond)
			select {
			case e := <-s.events:
				s.absorb(e)
				timer.Stop()
				continue
			case <-timer.C:
				return false
			}
		}
		t := p.pick(cands, step)
		if last != nil && last != t && last.state == tsParked && last.point != "task.start" && last.point != "op.done" {
			s.preempt++
		}
		last = t
		if len(s.trace) < 400 {
			s.trace = append(s.trace, fmt.Sprintf("%s@%s", t.name, t.point))
		}
		t.state = tsRunning
		t.steps++
		t.resume <- struct{}{}
		if !waitFor(t, s.blockT) {
			t.state = tsBlocked
		}
	}
	return false
}

// release lets every task run freely from now on (points stop parking) and
// wakes all parked tasks.
func (s *scheduler) release() {
	s.setFree()
	s.mu.Lock()
	all := append([]*schedTask{}, s.tasks...)
	s.mu.Unlock()
	for _, t := range all {
		select {
		case t.resume <- struct{}{}:
		default:
		}
	}
	// Keep draining events so that nobody blocks on the channel.
	go func() {
		for {
			select {
			case e := <-s.events:
				if e.t != nil {
					select {
					case e.t.resume <- struct{}{}:
					default:
					}
				}
			case <-time.After(2 * time.Second):
				return
			}
		}
	}()
}

// join waits until the function of every spawned task has returned (call it
// after release: run gives up on tasks that stay silent for long, and they
// may still be inside a store call). It returns false when d passes first.
func (s *scheduler) join(d time.Duration) bool {
	s.mu.Lock()
	all := append([]*schedTask{}, s.tasks...)
	s.mu.Unlock()
	timeout := time.After(d)
	for _, t := range all {
		if t.adopted || t.finished == nil {
			continue
		}
		select {
		case <-t.finished:
		case <-timeout:
			return false
		}
	}
	return true
}

// ---------------------------------------------------------------------------
// Policies

// randomWalk follows a generated choice list.
type randomWalk struct{ choices []int }

func (r randomWalk) pick(c []*schedTask, step int) *schedTask {
	if len(r.choices) == 0 {
		return c[0]
	}
	return c[r.choices[step%len(r.choices)]%len(c)]
}

// singlePreemption runs task A until it is parked at the N-th occurrence of
// point P, then everybody else to completion, then A.
type singlePreemption struct {
	a     int
	point string
	n     int
	order []int // order of the other tasks
}

func (sp singlePreemption) pick(c []*schedTask, step int) *schedTask {
	var a *schedTask
	for _, t := range c {
		if t.id == sp.a {
			a = t
		}
	}
	if a != nil && !(a.point == sp.point && a.hits[sp.point] >= sp.n) {
		return a // A has not reached the preemption point yet
	}
	// Others in the given order, each run to completion before the next.
	for _, id := range sp.order {
		for _, t := range c {
			if t.id == id && t != a {
				return t
			}
		}
	}
	for _, t := range c {
		if t != a {
			return t
		}
	}
	return a
}

// doublePreemption runs task A until it is parked at the N-th occurrence of
// point PA, then task B until it is parked at point PB, then A to completion,
// then B, then everybody else.
type doublePreemption struct {
	a, b   int
	pa, pb string
	na, nb int
	order  []int
	phase  *int // 0: A to PA, 1: B to PB, 2: A done, 3: B done, 4: rest
}

func (dp doublePreemption) pick(c []*schedTask, step int) *schedTask {
	find := func(id int) *schedTask {
		for _, t := range c {
			if t.id == id {
				return t
			}
		}
		return nil
	}
	a, b := find(dp.a), find(dp.b)
	for {
		switch *dp.phase {
		case 0:
			if a != nil && !(a.point == dp.pa && a.hits[dp.pa] >= dp.na) {
				return a
			}
			*dp.phase = 1
		case 1:
			if b != nil && !(b.point == dp.pb && b.hits[dp.pb] >= dp.nb) {
				return b
			}
			*dp.phase = 2
		case 2:
			if a != nil {
				return a
			}
			*dp.phase = 3
		case 3:
			if b != nil {
				return b
			}
			*dp.phase = 4
		default:
			for _, id := range dp.order {
				if t := find(id); t != nil {
					return t
				}
			}
			return c[0]
		}
	}
}

// pct: priorities with a few priority change points.
type pct struct {
	prio     []int
	changeAt []int
}

func (p pct) pick(c []*schedTask, step int) *schedTask {
	eff := func(t *schedTask) int {
		pr := 1000
		if t.id < len(p.prio) {
			pr = p.prio[t.id]
		}
		for i, ch := range p.changeAt {
			if step >= ch && i%max(1, len(c)) == t.id%max(1, len(c)) {
				pr += 500 * (i + 1)
			}
		}
		return pr
	}
	best := c[0]
	for _, t := range c[1:] {
		if eff(t) < eff(best) {
			best = t
		}
	}
	return best
}

// ---------------------------------------------------------------------------
// Goroutine state inspection (for deadlock verdicts by state, not by time)

type gInfo struct {
	id    int64
	state string // "chan receive", "select", "sync.Mutex.Lock", "runnable", ...
	stack string
}

func allGoroutines() []gInfo {
	buf := make([]byte, 1<<20)
	for {
		n := runtime.Stack(buf, true)
		if n < len(buf) {
			buf = buf[:n]
			break
		}
		buf = make([]byte, 2*len(buf))
	}
	var out []gInfo
	for _, blk := range strings.Split(string(buf), "\n\n") {
		if !strings.HasPrefix(blk, "goroutine ") {
			continue
		}
		head := blk[:strings.IndexByte(blk+"\n", '\n')]
		f := strings.Fields(head)
		if len(f) < 3 {
			continue
		}
		id, _ := strconv.ParseInt(f[1], 10, 64)
		st := head[strings.IndexByte(head, '[')+1:]
		st = strings.TrimSuffix(strings.TrimSpace(st), ":")
		st = strings.TrimSuffix(st, "]")
		if i := strings.IndexByte(st, ','); i >= 0 {
			st = st[:i]
		}
		out = append(out, gInfo{id: id, state: st, stack: blk})
	}
	return out
}

// moduleGoroutines returns the goroutines whose stack has a frame of the
// module under test.
func moduleGoroutines() []gInfo {
	var out []gInfo
	for _, g := range allGoroutines() {
		if strings.Contains(g.stack, "github.com/ipld/go-storethehash/") {
			out = append(out, g)
		}
	}
	return out
}
