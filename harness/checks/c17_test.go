package checks

import (
	"bytes"
	"fmt"
	"os"
	"path/filepath"
	"strings"
	"testing"
	"time"

	"github.com/ipld/go-storethehash/store"
	"pgregory.net/rapid"
)

// CloseCase: activity, then Close, then a census of what is left.
type CloseCase struct {
	Mode   string    `json:"mode"` // parked, timers, failopen, cycles
	Cfg    Config    `json:"cfg"`
	Keys   []KeySpec `json:"keys"`
	Ops    []Op      `json:"ops"`
	Point  string    `json:"point,omitempty"`   // parked: background point at which a collector / the flusher is held when Close is issued
	WaitUS int       `json:"wait_us,omitempty"` // timers: pause before Close
	Fail   string    `json:"fail,omitempty"`    // failopen: what is wrong
	Cycles int       `json:"cycles,omitempty"`  // cycles: number of open/close repetitions
	// NoStart (parked, timers): Store.Start is never called; the collectors
	// run all the same (OpenStore starts them), only the flusher does not.
	NoStart bool `json:"no_start,omitempty"`
}

const c17Rule = "five generated situations on stores with 1 ms GC and sync intervals (both collectors and the flusher really run): (parked) the cooperative scheduler adopts the store's own background goroutines at their named points, holds one of them at a drawn point inside a GC cycle or a flush, and then issues Close from the foreground task (a third of these cases prepare a low-use primary file so that the cycle in progress is one that relocates records; in some of the cases that hold a collector the store is never started - the collectors run all the same); (timers) free-running activity, a drawn pause, Close; (failopen) OpenStore that must fail (other index/primary file size, the same together with another bit size so that the failure happens inside the index translation, another bit size with an index file missing, garbage or empty header files, unsupported primary type, a store in the legacy formats whose index or primary file ends in a partial size prefix) on an existing store; (cycles) 1-30 open/activity/close repetitions; (faultclose) an environment fault (stray file at the next primary file name, stray directory at the next index file name or at the temporary name of the bucket snapshot) makes the flush or the snapshot inside Close fail - Close may return the error but must still stop everything and release every descriptor. " +
	"oracle = census right after Close (or the failed open) returns: no goroutine with a frame of the module (polled up to 2 s so that goroutines that already signalled completion can finish returning; a goroutine parked at a named point never finishes), no descriptor in /proc/self/fd pointing into the store directory, directory listing with sizes and content hashes unchanged across a pause and after every held goroutine is released, second Close returns nil, a reopen works; counts after N cycles equal the baseline. " +
	"non-trivial = Close issued while a GC cycle or flush was provably in progress (a background goroutine held at a named point, or point counters advanced within the last pause), an open that did fail, or a Close that did return the injected error; distinct = distinct canonical JSON of the case"

var c17BgPoints = []string{"igc.begin", "igc.file", "igc.reap.busyChecked", "igc.reap.mark", "igc.reap.truncate", "igc.header", "igc.unlink", "igc.free.scanned", "igc.free.unlink",
	"pgc.begin", "pgc.fl.togc", "pgc.fl.handed", "pgc.fl.mark", "pgc.fl.remove", "pgc.freelistDone", "pgc.file", "pgc.reap.truncate", "pgc.reap.relocate", "pgc.reap.updated", "pgc.header", "pgc.unlink",
	"run.flushNow", "flush.stamped", "mh.flush.write", "commit.primaryFlushed", "index.flush.write", "index.flush.written", "commit.indexFlushed", "commit.freelistFlushed", "flush.committed", "run.flushed"}

func genClose(t *rapid.T) CloseCase {
	var c CloseCase
	c.Mode = []string{"parked", "timers", "failopen", "cycles", "faultclose"}[weighted(t, "mode", []int{5, 3, 4, 1, 2})]
	c.Cfg = genConfig(t, cfgGenOpts{onlyMultihash: c.Mode != "failopen", smallBits: true, smallFiles: true})
	if c.Cfg.Bits > 12 {
		c.Cfg.Bits = 8
	}
	c.Cfg.Immutable = false
	c.Keys = genKeys(t, c.Cfg, 2, 8)
	m := genMix(t, []string{opPut, opRemove, opFlush, opGet, opIter}, []int{8, 3, 3, 1, 2})
	c.Ops = genOps(t, m, len(c.Keys), c.Cfg, 3, 25, false)
	if c.Mode != "failopen" && weighted(t, "emptiedBucket", []int{3, 1}) == 1 {
		// An emptied bucket on disk (its only key removed and flushed) below a
		// non-empty one, both pushed out of the in-memory pools by two further
		// flushes, then a whole-store iteration: the iterator walks over the
		// empty record list to the next bucket within one call.
		size := uint32(1) << c.Cfg.Bits
		lo := (bucketOf(c.Keys[0].Digest, c.Cfg.Bits) + 101) % size
		if lo == size-1 {
			lo = size - 2
		}
		mk := func(bucket uint32, last byte) KeySpec {
			d := append([]byte{}, c.Keys[0].Digest...)
			setBucket(d, c.Cfg.Bits, bucket)
			d[len(d)-1] = last
			return KeySpec{Digest: d, Code: c.Keys[0].Code, Codec: c.Keys[0].Codec, CidV0: c.Keys[0].CidV0}
		}
		a, b := mk(lo, 0xa1), mk(lo+1, 0xb2)
		clash := false
		for _, k := range c.Keys {
			bk := bucketOf(k.Digest, c.Cfg.Bits)
			if bk == lo || bk == lo+1 {
				clash = true
			}
		}
		if !clash {
			ia, ib := len(c.Keys), len(c.Keys)+1
			c.Keys = append(c.Keys, a, b)
			pre := []Op{{K: opPut, Key: ia, VLen: 7}, {K: opPut, Key: ib, VLen: 8}, {K: opFlush}, {K: opRemove, Key: ia}, {K: opFlush},
				{K: opPut, Key: ib, VLen: 9}, {K: opFlush}, {K: opPut, Key: ib, VLen: 10}, {K: opFlush}, {K: opIter}}
			c.Ops = append(pre, c.Ops...)
		}
	}
	switch c.Mode {
	case "parked":
		c.Point = c17BgPoints[rapid.IntRange(0, len(c17BgPoints)-1).Draw(t, "point")]
		if weighted(t, "lowuse", []int{2, 1}) == 1 {
			// A store whose oldest primary file is low-use by the periodic
			// collector's threshold (85 %): one small survivor next to large
			// removed records, so that the cycle in progress at Close is one
			// that relocates.
			c.Cfg.PrimSize = []uint32{256, 1024}[rapid.IntRange(0, 1).Draw(t, "lowuseprim")]
			c.Keys = extendKeys(c.Keys, 6)
			c.Ops = []Op{{K: opPut, Key: 0, VLen: 1}}
			for k := 1; k < len(c.Keys); k++ {
				c.Ops = append(c.Ops, Op{K: opPut, Key: k, VLen: 64})
			}
			c.Ops = append(c.Ops, Op{K: opFlush})
			for k := 1; k < len(c.Keys)-1; k++ {
				c.Ops = append(c.Ops, Op{K: opRemove, Key: k})
			}
			c.Ops = append(c.Ops, Op{K: opFlush})
			c.Point = []string{"pgc.file", "pgc.reap.relocate", "pgc.reap.relocated", "pgc.reap.updated", "pgc.fl.mark", "pgc.freelistDone", "pgc.reap.truncate"}[rapid.IntRange(0, 6).Draw(t, "lowusepoint")]
			c.NoStart = weighted(t, "nostart", []int{2, 1}) == 1
		} else if strings.HasPrefix(c.Point, "pgc.") || strings.HasPrefix(c.Point, "igc.") {
			c.NoStart = weighted(t, "nostart2", []int{4, 1}) == 1
		}
	case "timers":
		c.WaitUS = rapid.IntRange(0, 4000).Draw(t, "wait")
	case "failopen":
		c.Fail = []string{"index-size", "primary-size", "garbage-index-header", "empty-index-header", "garbage-primary-header", "empty-primary-header", "primary-type",
			"index-size+bits", "primary-size+bits", "bits+missing-index-file", "legacy-index-torn-tail", "legacy-primary-torn-tail"}[rapid.IntRange(0, 11).Draw(t, "fail")]
	case "cycles":
		c.Cycles = rapid.IntRange(1, 30).Draw(t, "cycles")
	case "faultclose":
		c.Fail = []string{"stray-next-primary-file", "stray-dir-at-next-index-file", "stray-dir-at-snapshot-tmp"}[rapid.IntRange(0, 2).Draw(t, "fault")]
		c.Cfg.PrimSize = []uint32{16, 64, 256}[rapid.IntRange(0, 2).Draw(t, "fprim")]
		c.Cfg.IdxSize = []uint32{16, 64, 256}[rapid.IntRange(0, 2).Draw(t, "fidx")]
	}
	return c
}

func fdsInto(dir string) []string {
	ents, err := os.ReadDir("/proc/self/fd")
	if err != nil {
		panic(infraError{err})
	}
	var out []string
	for _, en := range ents {
		t, err := os.Readlink("/proc/self/fd/" + en.Name())
		if err == nil && strings.HasPrefix(t, dir+"/") {
			out = append(out, filepath.Base(t))
		}
	}
	return out
}

// census checks that nothing of the store is left. baseline holds goroutines
// that existed before the case (leftovers of earlier failing cases).
func census(dir string, baseline map[int64]bool, what string) *Violation {
	var left []gInfo
	deadline := time.Now().Add(2 * time.Second)
	for {
		left = left[:0]
		for _, g := range moduleGoroutines() {
			if !baseline[g.id] {
				left = append(left, g)
			}
		}
		if len(left) == 0 || time.Now().After(deadline) {
			break
		}
		// A goroutine parked at a named point cannot finish by itself.
		allParked := true
		for _, g := range left {
			if !strings.Contains(g.stack, "vhook.Point") {
				allParked = false
			}
		}
		if allParked {
			break
		}
		time.Sleep(2 * time.Millisecond)
	}
	if len(left) > 0 {
		g := left[0]
		fn := "?"
		for _, l := range strings.Split(g.stack, "\n") {
			if strings.HasPrefix(l, "github.com/ipld/go-storethehash/") && !strings.Contains(l, "vhook.") {
				fn = strings.TrimPrefix(l, "github.com/ipld/go-storethehash/")
				if i := strings.LastIndex(fn, "("); i > 0 {
					fn = fn[:i]
				}
				break
			}
		}
		return viol("goroutine-alive-after-"+what+"|"+fn+"|", 0, "%d goroutine(s) of the module still exist after %s returned; first: [%s] in %s", len(left), what, g.state, fn)
	}
	if fds := fdsInto(dir); len(fds) > 0 {
		return viol("descriptor-open-after-"+what+"|"+tornFileClass(fds[0])+"|", 0, "%d descriptor(s) into the store directory are still open after %s returned: %v", len(fds), what, fds)
	}
	return nil
}

func storeOptsBusy(cfg Config) []store.Option {
	// A third of the configurations (chosen by a configuration bit, so that a
	// case stays a pure function of its JSON) cut the collectors' cycles
	// short by the clock.
	limit := time.Duration(0)
	if (int(cfg.Bits)+int(cfg.IdxSize)+int(cfg.PrimSize))%3 == 0 {
		limit = 50 * time.Microsecond
	}
	return []store.Option{store.IndexBitSize(cfg.Bits), store.IndexFileSize(cfg.IdxSize), store.PrimaryFileSize(cfg.PrimSize), store.FileCacheSize(cfg.FileCache),
		store.GCInterval(time.Millisecond), store.GCTimeLimit(limit), store.SyncInterval(time.Millisecond), store.BurstRate(1 << 40), store.SyncOnFlush(cfg.Sync)}
}

func openBusy(dir string, cfg Config) (*store.Store, error) {
	return store.OpenStore(bg, cfg.Primary, filepath.Join(dir, dataBase), filepath.Join(dir, idxBase), cfg.Immutable, storeOptsBusy(cfg)...)
}

type closeStats struct {
	inProgress bool
	skipped    bool
}

func runClose(c CloseCase) (st closeStats, v *Violation) {
	dir := newScratch("cl")
	defer os.RemoveAll(dir)
	baseline := map[int64]bool{}
	for _, g := range moduleGoroutines() {
		baseline[g.id] = true
	}
	// What the foreground calls stored (the collectors and the flusher never
	// change contents): after Close the directory must hold exactly this.
	model := map[int][]byte{}
	applied := 0
	apply := func(s *store.Store, ops []Op) {
		for _, op := range ops {
			applied++
			i := applied
			k := op.Key % len(c.Keys)
			key := c.Keys[k].Encode(c.Cfg.Primary, false)
			switch op.K {
			case opPut:
				val := valueFor(i, op.VLen, op.VNil)
				if err := s.Put(key, val); err == nil {
					if val == nil {
						val = []byte{}
					}
					model[k] = val
				} else if _, had := model[k]; !had || !c.Cfg.Immutable {
					model[-1] = nil // a Put failed for another reason than key-exists: contents unknown
				}
			case opRemove:
				if ok, err := s.Remove(key); err == nil && ok {
					delete(model, k)
				} else if err != nil {
					model[-1] = nil
				}
				continue
			case opIter:
				// Whole-store iteration opens index and primary files through
				// the file cache; every handle must be given back.
				it := s.NewIterator()
				for n := 0; n < 10000; n++ {
					if _, _, err := it.Next(); err != nil {
						break
					}
				}
			case opFlush:
				s.Flush()
			case opGet:
				s.Get(key)
			}
		}
	}
	stable := func(what string) *Violation {
		a := readDirImage(dir)
		time.Sleep(8 * time.Millisecond)
		b := readDirImage(dir)
		if a.hash() != b.hash() {
			return viol("directory-changes-after-"+what+"||", 0, "the store directory changed after %s returned: %s", what, diffImages(a, b))
		}
		return nil
	}
	switch c.Mode {
	case "timers", "cycles":
		n := 1
		if c.Mode == "cycles" {
			n = c.Cycles
		}
		for i := 0; i < n; i++ {
			s, err := openBusy(dir, c.Cfg)
			if err != nil {
				return st, viol("open-error|open|"+errClass(err), 0, "OpenStore: %v", err)
			}
			s.Start()
			if (int(c.Cfg.Bits)+len(c.Ops))%3 == 0 {
				s.Start() // a second Start must not start a second flusher
			}
			pc := newPointCounter()
			pc.install()
			apply(s, c.Ops)
			if c.WaitUS > 0 {
				time.Sleep(time.Duration(c.WaitUS) * time.Microsecond)
			}
			before := pc.snapshot()
			err = s.Close()
			after := pc.snapshot()
			pc.uninstall()
			for k, n := range after {
				if n > before[k] && (strings.HasPrefix(k, "igc.") || strings.HasPrefix(k, "pgc.") || strings.HasPrefix(k, "flush.")) {
					st.inProgress = true // background work advanced while Close was running
				}
			}
			if err != nil {
				return st, viol("close-error|close|"+errClass(err), 0, "Close: %v", err)
			}
			if v := census(dir, baseline, "Close"); v != nil {
				return st, v
			}
			if i == n-1 || i%7 == 0 {
				if v := stable("Close"); v != nil {
					return st, v
				}
			}
			if err := s.Close(); err != nil {
				return st, viol("close-error|second-close|"+errClass(err), 0, "second Close: %v", err)
			}
		}
		return st, contentsAfterClose(dir, c, model)
	case "faultclose":
		// An environment fault makes the flush inside Close (or the saving of
		// the bucket table) fail: Close may return the error, but it must
		// still stop everything and release every descriptor.
		s, err := openBusy(dir, c.Cfg)
		if err != nil {
			return st, viol("open-error|open|"+errClass(err), 0, "OpenStore: %v", err)
		}
		s.Start()
		apply(s, c.Ops)
		s.Flush()
		stray := func(base string, asDir bool) {
			nums := numberedFiles(dir, base)
			next := uint32(0)
			if len(nums) > 0 {
				next = nums[len(nums)-1] + 1
			}
			for n := next; n < next+3; n++ {
				name := filepath.Join(dir, fmt.Sprintf("%s.%d", base, n))
				if asDir {
					os.Mkdir(name, 0o755)
				} else {
					os.WriteFile(name, []byte("stray"), 0o644)
				}
			}
		}
		switch c.Fail {
		case "stray-next-primary-file":
			stray(dataBase, false)
		case "stray-dir-at-next-index-file":
			stray(idxBase, true)
		default:
			os.Mkdir(filepath.Join(dir, idxBase+".buckets.tmp"), 0o755)
		}
		// Unflushed writes, so that the flush inside Close has to roll over.
		for i := 0; i < 2*len(c.Keys); i++ {
			s.Put(c.Keys[i%len(c.Keys)].Encode(c.Cfg.Primary, false), valueFor(900+i, 40, false))
		}
		if err := s.Close(); err != nil {
			st.inProgress = true // the fault was hit: Close reports an error
		}
		if v := census(dir, baseline, "Close"); v != nil {
			v.Signature += c.Fail
			return st, v
		}
		if v := stable("Close"); v != nil {
			return st, v
		}
		return st, nil
	case "failopen":
		if strings.HasPrefix(c.Fail, "legacy-") {
			// A store in the legacy single-file formats (written by the legacy
			// encoder of C10 from this case's operations) whose index or primary
			// ends in a partial size prefix, as a crash of the old version
			// leaves it: if the converting open fails, it must release everything.
			lc := LegacyCase{Bits: c.Cfg.Bits, IdxSize: c.Cfg.IdxSize, PrimSize: c.Cfg.PrimSize, Keys: c.Keys, FreeMode: []int{0, 1, 2}}
			for _, op := range c.Ops {
				switch op.K {
				case opPut:
					lc.Hist = append(lc.Hist, LOp{K: "put", Key: op.Key, VLen: op.VLen})
				case opRemove:
					lc.Hist = append(lc.Hist, LOp{K: "rm", Key: op.Key})
				case opFlush:
					lc.Hist = append(lc.Hist, LOp{K: "flush"})
				}
			}
			writeLegacy(dir, lc)
			victim := idxBase
			if c.Fail == "legacy-primary-torn-tail" {
				victim = dataBase
			}
			if f, err := os.OpenFile(filepath.Join(dir, victim), os.O_APPEND|os.O_WRONLY, 0o644); err == nil {
				f.Write([]byte{0x07, 0x00})
				f.Close()
			}
			cfg := lc.cfg()
			s2, err := store.OpenStore(bg, cfg.Primary, filepath.Join(dir, dataBase), filepath.Join(dir, idxBase), false, storeOptsBusy(cfg)...)
			if err == nil {
				s2.Close()
				return st, nil // the conversion coped with it: not a failing open
			}
			st.inProgress = true
			if v := census(dir, baseline, "failed-open"); v != nil {
				v.Signature += c.Fail
				return st, v
			}
			return st, stable("failed-open")
		}
		s, err := openStore(dir, c.Cfg)
		if err != nil {
			return st, viol("open-error|open|"+errClass(err), 0, "OpenStore: %v", err)
		}
		apply(s, c.Ops)
		if err := s.Close(); err != nil {
			return st, viol("close-error|close|"+errClass(err), 0, "Close: %v", err)
		}
		bad := c.Cfg
		ptype := c.Cfg.Primary
		restore := func() {}
		corrupt := func(name string, content []byte) {
			p := filepath.Join(dir, name)
			old, err := os.ReadFile(p)
			if err != nil {
				return
			}
			os.WriteFile(p, content, 0o644)
			restore = func() { os.WriteFile(p, old, 0o644) }
		}
		otherBits := func() uint8 {
			if c.Cfg.Bits >= 12 {
				return c.Cfg.Bits - 3
			}
			return c.Cfg.Bits + 3
		}
		switch c.Fail {
		case "index-size+bits":
			// The bit size differs too, so the open enters the translation of
			// the index and fails inside it.
			bad.IdxSize = uint32(effectiveSize(c.Cfg.IdxSize)/2 + 3)
			bad.Bits = otherBits()
		case "primary-size+bits":
			bad.Bits = otherBits()
			if c.Cfg.Primary != store.MultihashPrimary {
				bad.IdxSize = uint32(effectiveSize(c.Cfg.IdxSize)/2 + 3)
			} else {
				bad.PrimSize = uint32(effectiveSize(c.Cfg.PrimSize)/2 + 3)
			}
		case "bits+missing-index-file":
			// A translation that fails while reading the old index.
			bad.Bits = otherBits()
			if nums := numberedFiles(dir, idxBase); len(nums) > 0 {
				p := filepath.Join(dir, fmt.Sprintf("%s.%d", idxBase, nums[0]))
				if old, err := os.ReadFile(p); err == nil && len(old) > 0 {
					os.Remove(p)
					restore = func() { os.WriteFile(p, old, 0o644) }
				}
			}
		case "index-size":
			bad.IdxSize = uint32(effectiveSize(c.Cfg.IdxSize)/2 + 3)
		case "primary-size":
			if c.Cfg.Primary != store.MultihashPrimary {
				bad.IdxSize = uint32(effectiveSize(c.Cfg.IdxSize)/2 + 3)
			} else {
				bad.PrimSize = uint32(effectiveSize(c.Cfg.PrimSize)/2 + 3)
			}
		case "garbage-index-header":
			corrupt(idxBase+".info", []byte("{garbage"))
		case "empty-index-header":
			corrupt(idxBase+".info", nil)
		case "garbage-primary-header":
			if c.Cfg.Primary != store.MultihashPrimary {
				corrupt(idxBase+".info", []byte("{garbage"))
			} else {
				corrupt(dataBase+".info", []byte("{garbage"))
			}
		case "empty-primary-header":
			if c.Cfg.Primary != store.MultihashPrimary {
				corrupt(idxBase+".info", nil)
			} else {
				corrupt(dataBase+".info", nil)
			}
		case "primary-type":
			ptype = "no-such-primary"
		}
		s2, err := store.OpenStore(bg, ptype, filepath.Join(dir, dataBase), filepath.Join(dir, idxBase), bad.Immutable, storeOptsBusy(bad)...)
		if err == nil {
			s2.Close()
			return st, nil // not a failing open after all (nothing to check here)
		}
		st.inProgress = true
		if v := census(dir, baseline, "failed-open"); v != nil {
			v.Signature += c.Fail
			return st, v
		}
		if v := stable("failed-open"); v != nil {
			return st, v
		}
		restore()
		return st, nil
	}

	// parked: the scheduler holds a background goroutine at a point.
	s, err := openBusy(dir, c.Cfg)
	if err != nil {
		return st, viol("open-error|open|"+errClass(err), 0, "OpenStore: %v", err)
	}
	sch := newScheduler()
	sch.blockT = time.Millisecond
	sch.adopt = func(point string) string {
		return "bg:" + strings.SplitN(point, ".", 2)[0]
	}
	sch.install()
	if !c.NoStart {
		s.Start()
	}
	var closeErr error
	var censusViol *Violation
	mainDone := make(chan struct{})
	sch.spawn("main", func(yield func(string)) {
		defer close(mainDone)
		apply(s, c.Ops)
		yield("c17.work.done")
		closeErr = s.Close()
		// Right after Close returned, with every other task still held.
		censusViol = census(dir, baseline, "Close")
		if censusViol == nil {
			censusViol = stable("Close")
		}
		yield("c17.closed")
	})
	pol := &closePolicy{point: c.Point, budget: 120}
	sch.run(pol, 20000)
	st.inProgress = pol.held
	sch.release()
	// The scheduler gives up on a task that stays silent for long (a loaded
	// machine): join the foreground task before looking at its results or at
	// the descriptor table, which its own directory reads would show up in.
	select {
	case <-mainDone:
	case <-time.After(2 * time.Minute):
		sch.uninstall()
		return st, viol("close-does-not-return||", 0, "Close (or the census after it) has not returned 2 minutes after every held goroutine was released; trace: %v", sch.trace)
	}
	// After everything that was held has been let go, the directory must
	// still not change, and nothing may be left.
	time.Sleep(5 * time.Millisecond)
	sch.uninstall()
	if closeErr != nil {
		return st, viol("close-error|close|"+errClass(closeErr), 0, "Close: %v", closeErr)
	}
	if censusViol != nil {
		return st, censusViol
	}
	if v := stable("Close-and-release"); v != nil {
		return st, v
	}
	if v := census(dir, baseline, "Close"); v != nil {
		return st, v
	}
	if err := s.Close(); err != nil {
		return st, viol("close-error|second-close|"+errClass(err), 0, "second Close: %v", err)
	}
	// The directory can be reopened, and holds what was stored.
	return st, contentsAfterClose(dir, c, model)
}

// contentsAfterClose reopens the closed directory and compares it with what
// the foreground calls had stored; then lets one GC cycle of each kind work on
// it and compares again (a block that Close left on the freelist although the
// index still names it only disappears when GC applies the freelist).
func contentsAfterClose(dir string, c CloseCase, model map[int][]byte) *Violation {
	s3, err := openStore(dir, c.Cfg)
	if err != nil {
		return viol("reopen-after-close-fails|open|"+errClass(err), 0, "reopen after Close failed: %v", err)
	}
	defer closeQuietly(s3)
	if _, unknown := model[-1]; unknown {
		return nil
	}
	read := func(when string) *Violation {
		for k, ks := range c.Keys {
			want, present := model[k]
			got, found, err := s3.Get(ks.Encode(c.Cfg.Primary, false))
			switch {
			case err != nil:
				return viol("contents-after-close|"+when+"|"+errClass(err), 0, "Get(key %d) on the reopened directory (%s) returned %v", k, when, err)
			case present && !found:
				return viol("contents-after-close|"+when+"|absent-but-stored", 0, "key %d was stored (%s) before Close, Close returned nil, but the reopened directory (%s) does not have it", k, shortBytes(want), when)
			case !present && found:
				return viol("contents-after-close|"+when+"|present-but-removed", 0, "key %d was not stored at Close but the reopened directory (%s) has %s", k, when, shortBytes(got))
			case present && !bytes.Equal(got, want):
				return viol("contents-after-close|"+when+"|other-value", 0, "key %d reads %s on the reopened directory (%s), stored was %s", k, shortBytes(got), when, shortBytes(want))
			}
		}
		return nil
	}
	return guard(0, "contents-after-close", func() *Violation {
		if v := read("after-reopen"); v != nil {
			return v
		}
		s3.Flush()
		if mp := mhPrimaryOf(s3); mp != nil {
			mp.GC(bg, 100)
		}
		s3.Index().VerifGC(bg, true)
		s3.Flush()
		return read("after-reopen-and-gc")
	})
}

// closePolicy: let the foreground work finish, then prefer background tasks
// until one is held at the drawn point (or the budget runs out), then run
// the foreground task (Close); while it is blocked in Close, the others run.
type closePolicy struct {
	point  string
	budget int
	held   bool
	holder *schedTask
}

func (p *closePolicy) pick(c []*schedTask, step int) *schedTask {
	var main *schedTask
	var bgs []*schedTask
	for _, t := range c {
		if t.name == "main" {
			main = t
		} else {
			bgs = append(bgs, t)
		}
	}
	if main != nil && main.point != "c17.work.done" {
		return main // foreground work / after Close
	}
	if !p.held && p.budget > 0 {
		for _, t := range bgs {
			if t.point == p.point {
				p.held, p.holder = true, t
			}
		}
		if !p.held && len(bgs) > 0 {
			p.budget--
			return bgs[step%len(bgs)]
		}
		if !p.held && main == nil {
			return c[0]
		}
	}
	if main != nil {
		return main // issue Close now
	}
	// main is blocked inside Close: let the others move, the held one last.
	for _, t := range bgs {
		if t != p.holder {
			return t
		}
	}
	return c[0]
}

func diffImages(a, b dirImage) string {
	var out []string
	for k, va := range a {
		vb, ok := b[k]
		if !ok {
			out = append(out, k+" removed")
		} else if string(va) != string(vb) {
			out = append(out, fmt.Sprintf("%s changed (%d -> %d bytes)", k, len(va), len(vb)))
		}
	}
	for k := range b {
		if _, ok := a[k]; !ok {
			out = append(out, k+" created")
		}
	}
	return strings.Join(out, ", ")
}

func TestC17(t *testing.T) {
	ev := newEvidence("C17", "exploration", c17Rule)
	defer ev.Write()
	if envReplay != "" {
		var c CloseCase
		readReplay(envReplay, &c)
		for i := 0; i < 20; i++ {
			_, v := runClose(c)
			ev.Record(c, true)
			if v != nil {
				ev.Report(v, c)
				t.Fatalf("replay: %v", v)
			}
		}
		return
	}
	for _, f := range regressFiles("C17") {
		var c CloseCase
		readReplay(f, &c)
		for i := 0; i < 3; i++ {
			_, v := runClose(c)
			ev.Record(c, true, "regression-case")
			if v != nil && ev.Report(v, c) {
				t.Fatalf("regression case %s: %v", f, v)
			}
		}
	}
	setRapidChecks(budget(700, 900))
	rapid.Check(t, func(rt *rapid.T) {
		if pastDeadline() {
			ev.Skip()
			return
		}
		c := genClose(rt)
		st, v := runClose(c)
		cl := []string{"mode=" + c.Mode}
		switch {
		case st.inProgress && c.Mode == "faultclose":
			cl = append(cl, "close-returned-the-injected-error:"+c.Fail)
		case st.inProgress && c.Mode == "failopen":
			cl = append(cl, "open-failed:"+c.Fail)
		case st.inProgress:
			cl = append(cl, "background-work-in-progress-at-close")
		}
		ev.Record(c, st.inProgress, cl...)
		if v != nil && ev.Report(v, c) {
			rt.Fatalf("%v", v)
		}
	})
	ev.finish(t)
}
