package checks

import (
	"bytes"
	"encoding/hex"
	"fmt"
	"os"
	"strings"
	"testing"

	"pgregory.net/rapid"
)

var c09Kinds = []string{opPut, opRePut, opGet, opRemove, opFlush, opIter, opCheckAll, opIGC, opReBits, opMismatch}
var c09MaxW = []int{12, 1, 2, 3, 3, 1, 1, 1, 0, 0}

// genC09 builds: a C01-like history at the first bit size, then one or more
// re-bucketings (and refused opens) each followed by more history.
func genC09(t *rapid.T, pair *[2]uint8) SeqCase {
	var c SeqCase
	c.Cfg = genConfig(t, cfgGenOpts{smallBits: true, smallFiles: true})
	small := []uint8{8, 9, 10, 11, 12, 13, 14, 15, 16, 17}
	pickBits := func(label string) uint8 {
		if weighted(t, label+"big", []int{40, 1}) == 1 {
			return uint8(rapid.IntRange(18, 24).Draw(t, label))
		}
		return small[rapid.IntRange(0, len(small)-1).Draw(t, label)]
	}
	if pair != nil {
		c.Cfg.Bits = pair[0]
	} else {
		c.Cfg.Bits = pickBits("bits1")
	}
	c.Keys = genKeys(t, c.Cfg, 4, 14)
	m := genMix(t, c09Kinds, c09MaxW)
	rounds := rapid.IntRange(1, 3).Draw(t, "rounds")
	if pair != nil {
		rounds = 1
	}
	ops := genOps(t, m, len(c.Keys), c.Cfg, 6, 30, false)
	for r := 0; r < rounds; r++ {
		switch w := weighted(t, "what", []int{6, 1, 1}); w {
		case 0:
			nb := pickBits("bits2")
			if pair != nil {
				nb = pair[1]
			}
			rb := Op{K: opReBits, A: int(nb)}
			if weighted(t, "rebitsfault", []int{4, 1}) == 1 {
				rb.B = 1 // with a primary read fault during a first attempt
			}
			ops = append(ops, rb)
		case 1, 2:
			op := Op{K: opMismatch, A: w, B: int(sizeChoices[rapid.IntRange(0, len(sizeChoices)-1).Draw(t, "wrongsize")])}
			// In a third of the refused opens the bit size differs as well: a
			// file-size mismatch must be refused whatever else was changed.
			if weighted(t, "alsobits", []int{2, 1}) == 1 {
				op.Key = int(pickBits("bits3"))
			}
			ops = append(ops, op)
		}
		ops = append(ops, genOps(t, m, len(c.Keys), c.Cfg, 0, 12, false)...)
	}
	c.Ops = ops
	return c
}

const c09Rule = "rapid-generated C01-style histories at a first index bit size (shared prefixes, removed keys, multi-file index), clean close, reopen with another bit size (translation), full read-back and iteration against the reference map, then more history under the new size; refused opens: reopen with another index / primary file-size limit (in a third of them also with another bit size) must fail with ErrIndexWrongFileSize / ErrPrimaryWrongFileSize (errors.As) and a later open with the original settings must show exactly the reference map; thorough tier additionally walks all 289 ordered pairs of 8..24 once; " +
	"a fifth of the re-bucketings are preceded by an attempt during which the oldest primary file cannot be read (a directory stands in its place): the attempt may be refused, and whether it is or not, the re-bucketing made once the file is back must show exactly the reference map; " +
	"non-trivial = a translation of >=6 keys of which >=2 share a bucket afterwards, from an index of >=2 files; distinct = distinct canonical JSON of the case. The crash clause is checked by the crash campaign of this check (see coverage.crash_*): each image is opened with the new and with the old bit size (a successful open must show every key), and an image that reads right with the old size is used further (one key updated, one removed, one added), closed and re-bucketed again, and must then equal the model."

func c09Classes(c SeqCase, st SeqStats) []string {
	cl := seqClasses(c, st)
	if st.Translations > 0 {
		cl = append(cl, "translation")
	}
	if st.Mismatches > 0 {
		cl = append(cl, "refused-open")
	}
	if st.FaultyRebitsRefused > 0 {
		cl = append(cl, "rebucketing-attempt-with-unreadable-primary-file:refused")
	}
	if st.FaultyRebitsAccepted > 0 {
		cl = append(cl, "rebucketing-attempt-with-unreadable-primary-file:accepted")
	}
	if st.MismatchesWithBits > 0 {
		cl = append(cl, "refused-open-with-other-bits")
	}
	for _, p := range st.BitPairs {
		var a, b int
		fmt.Sscanf(p, "%d->%d", &a, &b)
		if a >= 18 || b >= 18 {
			cl = append(cl, "pair-touching>=18")
		}
		if a > b {
			cl = append(cl, "shrinking-bits")
		} else {
			cl = append(cl, "growing-bits")
		}
	}
	return cl
}

func TestC09(t *testing.T) {
	ev := newEvidence("C09", "exploration", c09Rule)
	defer ev.Write()
	if envReplay != "" && strings.HasPrefix(readReplayRaw(envReplay).Signature, "interrupted-translation") {
		var rp TransReplay
		readReplay(envReplay, &rp)
		ev.Record(rp, true)
		for _, v := range checkTransImage(rp) {
			if ev.Report(v, rp) {
				t.Fatalf("replay: %v", v)
			}
		}
		return
	}
	if replaySeq(t, ev, seqOpts{}) {
		return
	}
	for _, f := range regressFiles("C09") {
		if strings.HasPrefix(readReplayRaw(f).Signature, "interrupted-translation") {
			continue
		}
		var c SeqCase
		readReplay(f, &c)
		st, v := runSeq(c, seqOpts{})
		ev.Record(c, true, append(seqClasses(c, st), "regression-case")...)
		if v != nil && ev.Report(v, c) {
			t.Fatalf("regression case %s: %v", f, v)
		}
	}
	pairs := map[string]bool{}
	prop := func(pair *[2]uint8) func(rt *rapid.T) {
		return func(rt *rapid.T) {
			if pastDeadline() {
				ev.Skip()
				return
			}
			c := genC09(rt, pair)
			st, v := runSeq(c, seqOpts{})
			for _, p := range st.BitPairs {
				pairs[p] = true
			}
			ev.Record(c, st.TranslatedNT, c09Classes(c, st)...)
			if v != nil && ev.Report(v, c) {
				rt.Fatalf("%v", v)
			}
		}
	}
	setRapidChecks(budget(6000, 12000))
	rapid.Check(t, prop(nil))
	// Fixed pairs: two touching >= 20 bits in quick, all 289 in thorough
	// (spread over the shards).
	var fixed [][2]uint8
	if thorough() {
		n := 0
		for a := uint8(8); a <= 24; a++ {
			for b := uint8(8); b <= 24; b++ {
				if n%envShards == envShard {
					fixed = append(fixed, [2]uint8{a, b})
				}
				n++
			}
		}
	} else if envShard == 0 {
		fixed = [][2]uint8{{12, 21}, {20, 9}}
	}
	for _, p := range fixed {
		p := p
		setRapidChecks(1)
		rapid.Check(t, prop(&p))
	}
	ev.Extra["bit_pairs_seen_summed_over_shards"] = len(pairs)
	// Crash clause.
	for _, f := range regressFiles("C09") {
		r := readReplayRaw(f)
		if !strings.HasPrefix(r.Signature, "interrupted-translation") {
			continue
		}
		var rp TransReplay
		readReplay(f, &rp)
		if rp.Workload != nil {
			exploreTransCrash(ev, *rp.Workload, true, func(f2 string, a ...any) { t.Fatalf("regression case "+f+": "+f2, a...) })
		}
	}
	setRapidChecks(budget(800, 400))
	rapid.Check(t, func(rt *rapid.T) {
		if pastDeadline() {
			ev.Skip()
			return
		}
		exploreTransCrash(ev, genTransCrash(rt), thorough(), rt.Fatalf)
	})
	ev.finish(t)
}

// ---------------------------------------------------------------------------
// Crash clause: an interrupted re-bucketing never leaves a store that opens
// successfully with fewer keys than before.

// TransCrashCase is a history, the bit size to translate to, and which crash
// states inside the translation to examine (quick tier).
type TransCrashCase struct {
	Seq     SeqCase `json:"seq"`
	NewBits uint8   `json:"new_bits"`
	Picks   []int   `json:"picks"`
}

// TransReplay is a self-contained crash image of an interrupted translation.
type TransReplay struct {
	Cfg      Config            `json:"cfg"`
	NewBits  uint8             `json:"new_bits"`
	Keys     []KeySpec         `json:"keys"`
	Model    map[string]string `json:"model_hex"` // digest hex -> value hex
	Point    string            `json:"point"`
	Torn     string            `json:"torn"`
	Image    map[string]string `json:"image_hex"`
	Workload *TransCrashCase   `json:"workload,omitempty"`
}

func genTransCrash(t *rapid.T) TransCrashCase {
	var c TransCrashCase
	c.Seq.Cfg = genConfig(t, cfgGenOpts{smallBits: true, smallFiles: true})
	small := []uint8{8, 9, 10, 12, 15, 16}
	c.Seq.Cfg.Bits = small[rapid.IntRange(0, len(small)-1).Draw(t, "bits1")]
	c.NewBits = small[rapid.IntRange(0, len(small)-1).Draw(t, "bits2")]
	if c.NewBits == c.Seq.Cfg.Bits {
		c.NewBits = c.Seq.Cfg.Bits + 1
	}
	c.Seq.Keys = genKeys(t, c.Seq.Cfg, 4, 12)
	m := genMix(t, c09Kinds, c09MaxW)
	c.Seq.Ops = genOps(t, m, len(c.Seq.Keys), c.Seq.Cfg, 6, 30, false)
	c.Picks = rapid.SliceOfN(rapid.IntRange(0, 1<<20), 6, 6).Draw(t, "picks")
	return c
}

// checkTransImage opens the crash image with the new and with the old bit
// size; an open may fail, but a successful open must show every key.
func checkTransImage(rp TransReplay) []*Violation {
	var out []*Violation
	site := crashSite(RecoveryReplay{Point: rp.Point, Torn: rp.Torn})
	for _, bits := range []uint8{rp.NewBits, rp.Cfg.Bits} {
		which := "new-bits"
		if bits == rp.Cfg.Bits {
			which = "old-bits"
		}
		dir := newScratch("tr")
		unhexImage(rp.Image).writeTo(dir)
		cfg := rp.Cfg
		cfg.Bits = bits
		v := guard(-1, "translation-recovery", func() *Violation {
			s, err := openStore(dir, cfg)
			if err != nil {
				return nil // refusing to open is allowed
			}
			defer s.Close()
			missing, wrong := 0, 0
			var example string
			for _, ks := range rp.Keys {
				want, present := rp.Model[hex.EncodeToString(ks.Digest)]
				if !present {
					continue
				}
				got, found, err := s.Get(ks.Encode(cfg.Primary, false))
				if err != nil || !found {
					missing++
					example = hex.EncodeToString(ks.Digest)
				} else if hex.EncodeToString(got) != want {
					wrong++
					example = hex.EncodeToString(ks.Digest)
				}
			}
			if missing+wrong > 0 {
				sym := "some-keys-missing"
				if missing == len(rp.Model) {
					sym = "opens-empty"
				}
				return viol("interrupted-translation-lost-keys|"+site+"|"+which+"-"+sym, -1, "store opened successfully with %d bits after a re-bucketing to %d bits was interrupted, but %d of %d keys are missing and %d read a wrong value (e.g. %s)", bits, rp.NewBits, missing, len(rp.Model), wrong, example)
			}
			return nil
		})
		os.RemoveAll(dir)
		if v != nil {
			out = append(out, v)
		}
	}
	if len(out) > 0 {
		return out
	}
	// Third path: the store goes on being used with its ORIGINAL bit size (a
	// key updated, one removed, one added), and the re-bucketing is tried
	// again later: what the interrupted attempt left behind must not leak
	// into the result.
	dir := newScratch("tr")
	defer os.RemoveAll(dir)
	unhexImage(rp.Image).writeTo(dir)
	v := guard(-1, "translation-retry", func() *Violation {
		s, err := openStore(dir, rp.Cfg)
		if err != nil {
			return nil
		}
		model := map[string][]byte{}
		for _, ks := range rp.Keys {
			if want, present := rp.Model[hex.EncodeToString(ks.Digest)]; present {
				b, _ := hex.DecodeString(want)
				got, found, err := s.Get(ks.Encode(rp.Cfg.Primary, false))
				if err != nil || !found || !bytes.Equal(got, b) {
					s.Close()
					return nil // judged by the first two paths
				}
				model[string(ks.Digest)] = b
			}
		}
		updated, removed, added := false, false, false
		for i, ks := range rp.Keys {
			key := ks.Encode(rp.Cfg.Primary, false)
			_, present := model[string(ks.Digest)]
			switch {
			case present && !updated && !rp.Cfg.Immutable:
				val := []byte(fmt.Sprintf("retry-update-%d", i))
				if err := s.Put(key, val); err == nil {
					model[string(ks.Digest)] = val
				}
				updated = true
			case present && !removed:
				if ok, err := s.Remove(key); err == nil && ok {
					delete(model, string(ks.Digest))
				}
				removed = true
			case !present && !added:
				val := []byte(fmt.Sprintf("retry-add-%d", i))
				if err := s.Put(key, val); err == nil {
					model[string(ks.Digest)] = val
				}
				added = true
			}
		}
		if err := s.Close(); err != nil {
			return nil
		}
		cfg := rp.Cfg
		cfg.Bits = rp.NewBits
		s2, err := openStore(dir, cfg)
		if err != nil {
			return nil // refusing to open is allowed
		}
		defer s2.Close()
		for i, ks := range rp.Keys {
			want, present := model[string(ks.Digest)]
			got, found, err := s2.Get(ks.Encode(cfg.Primary, false))
			sym := ""
			switch {
			case err != nil:
				sym = "error"
			case present && !found:
				sym = "key-missing"
			case !present && found:
				sym = "removed-key-back"
			case present && !bytes.Equal(got, want):
				sym = "stale-value"
			}
			if sym != "" {
				return viol("retried-translation-wrong-contents|"+site+"|"+sym, -1, "a re-bucketing to %d bits was interrupted, the store was then used with its original %d bits (one key updated, one removed, one added; all reads right) and closed, and the re-bucketing was tried again: key %d reads (%s, found=%v, err=%v), expected (%s, present=%v)", rp.NewBits, rp.Cfg.Bits, i, shortBytes(got), found, err, shortBytes(want), present)
			}
		}
		return nil
	})
	if v != nil {
		if strings.HasPrefix(v.Signature, "panic|") {
			// Keep the crash site in the signature (a known finding is
			// identified by it).
			v.Detail = "retried re-bucketing: " + v.Detail + " (" + v.Signature + ")"
			v.Signature = "retried-translation-wrong-contents|" + site + "|panic"
		}
		out = append(out, v)
	}
	return out
}

func exploreTransCrash(ev *Evidence, c TransCrashCase, exhaustive bool, fatalf func(string, ...any)) {
	var model map[string][]byte
	var dir string
	o := seqOpts{KeepDir: true, NoFinalIter: true}
	o.Epilogue = func(r *seqRunner, step int) *Violation {
		model = r.model
		dir = r.dir
		return nil
	}
	_, v := runSeq(c.Seq, o)
	if dir != "" {
		defer os.RemoveAll(dir)
	}
	if v != nil || dir == "" {
		ev.Class("crash:workload-failed(foreign)", 1)
		return
	}
	rec := newCrashRecorder(dir)
	rec.curOp = 0
	rec.capture("before-translation", true)
	rec.install()
	cfg2 := c.Seq.Cfg
	cfg2.Bits = c.NewBits
	s, err := openStore(dir, cfg2)
	rec.uninstall()
	if err != nil {
		ev.Class("crash:translation-failed(foreign)", 1)
		return
	}
	rec.capture("after-translation", true)
	s.Close()
	hexModel := map[string]string{}
	for d, v := range model {
		hexModel[hex.EncodeToString([]byte(d))] = hex.EncodeToString(v)
	}
	var specs []*tornSpec
	for i := 0; i+1 < len(rec.snaps); i++ {
		spec, _, ok := rec.step(i)
		if !ok {
			ev.Class("crash:hook-gap "+rec.meta[i].Point+" -> "+rec.meta[i+1].Point, 1)
			continue
		}
		if spec != nil && spec.count() > 0 {
			specs = append(specs, spec)
		}
	}
	check := func(st crashState) {
		wl := c
		rp := TransReplay{Cfg: c.Seq.Cfg, NewBits: c.NewBits, Keys: c.Seq.Keys, Model: hexModel, Point: st.Point, Torn: st.Torn, Image: hexImage(st.Image), Workload: &wl}
		vs := checkTransImage(rp)
		inside := strings.HasPrefix(st.Point, "translate.") || strings.HasPrefix(st.Point, "move.")
		ev.Record(struct {
			H string
			B uint8
		}{st.Image.hash(), c.NewBits}, inside && len(model) >= 6, "crash:state", "crash:at:"+strings.SplitN(st.Point, ".", 2)[0])
		for _, v := range vs {
			if ev.Report(v, rp) {
				fatalf("%v", v)
			}
		}
	}
	if exhaustive {
		for n := 0; n < len(rec.snaps); n++ {
			check(rec.pointState(n))
		}
		for _, spec := range specs {
			stride := 1
			if tornFileClass(spec.file) == "bucket-snapshot" {
				stride = spec.count()/4 + 1
			}
			for j := 0; j < spec.count(); j += stride {
				check(rec.tornState(spec, j))
			}
		}
		return
	}
	for j, p := range c.Picks {
		if j%3 != 2 || len(specs) == 0 {
			check(rec.pointState(p % len(rec.snaps)))
		} else {
			spec := specs[p%len(specs)]
			check(rec.tornState(spec, (p/7919)%spec.count()))
		}
	}
}
