package checks

import (
	"fmt"
	"testing"

	"pgregory.net/rapid"
)

var c09Kinds = []string{opPut, opRePut, opGet, opRemove, opFlush, opIter, opCheckAll, opIGC, opReBits, opMismatch}
var c09MaxW = []int{12, 1, 2, 3, 3, 1, 1, 1, 0, 0}

// genC09 builds: a C01-like history at the first bit size, then one or more
// re-bucketings (and refused opens) each followed by more history.
func genC09(t *rapid.T, pair *[2]uint8) SeqCase {
	var c SeqCase
	c.Cfg = genConfig(t, cfgGenOpts{smallBits: true, smallFiles: true})
	small := []uint8{8, 9, 10, 11, 12, 13, 14, 15, 16, 17}
	pickBits := func(label string) uint8 {
		if weighted(t, label+"big", []int{40, 1}) == 1 {
			return uint8(rapid.IntRange(18, 24).Draw(t, label))
		}
		return small[rapid.IntRange(0, len(small)-1).Draw(t, label)]
	}
	if pair != nil {
		c.Cfg.Bits = pair[0]
	} else {
		c.Cfg.Bits = pickBits("bits1")
	}
	c.Keys = genKeys(t, c.Cfg, 4, 14)
	m := genMix(t, c09Kinds, c09MaxW)
	rounds := rapid.IntRange(1, 3).Draw(t, "rounds")
	if pair != nil {
		rounds = 1
	}
	ops := genOps(t, m, len(c.Keys), c.Cfg, 6, 30, false)
	for r := 0; r < rounds; r++ {
		switch weighted(t, "what", []int{6, 1, 1}) {
		case 0:
			nb := pickBits("bits2")
			if pair != nil {
				nb = pair[1]
			}
			ops = append(ops, Op{K: opReBits, A: int(nb)})
		case 1:
			ops = append(ops, Op{K: opMismatch, A: 1, B: int(sizeChoices[rapid.IntRange(0, len(sizeChoices)-1).Draw(t, "wrongsize")])})
		case 2:
			ops = append(ops, Op{K: opMismatch, A: 2, B: int(sizeChoices[rapid.IntRange(0, len(sizeChoices)-1).Draw(t, "wrongsize")])})
		}
		ops = append(ops, genOps(t, m, len(c.Keys), c.Cfg, 0, 12, false)...)
	}
	c.Ops = ops
	return c
}

const c09Rule = "rapid-generated C01-style histories at a first index bit size (shared prefixes, removed keys, multi-file index), clean close, reopen with another bit size (translation), full read-back and iteration against the reference map, then more history under the new size; refused opens: reopen with another index / primary file-size limit must fail with ErrIndexWrongFileSize / ErrPrimaryWrongFileSize (errors.As) and a later open with the original settings must show exactly the reference map; thorough tier additionally walks all 289 ordered pairs of 8..24 once; " +
	"non-trivial = a translation of >=6 keys of which >=2 share a bucket afterwards, from an index of >=2 files; distinct = distinct canonical JSON of the case. The crash clause is checked by the crash campaign of this check (see coverage.crash_*)."

func c09Classes(c SeqCase, st SeqStats) []string {
	cl := seqClasses(c, st)
	if st.Translations > 0 {
		cl = append(cl, "translation")
	}
	if st.Mismatches > 0 {
		cl = append(cl, "refused-open")
	}
	for _, p := range st.BitPairs {
		var a, b int
		fmt.Sscanf(p, "%d->%d", &a, &b)
		if a >= 18 || b >= 18 {
			cl = append(cl, "pair-touching>=18")
		}
		if a > b {
			cl = append(cl, "shrinking-bits")
		} else {
			cl = append(cl, "growing-bits")
		}
	}
	return cl
}

func TestC09(t *testing.T) {
	ev := newEvidence("C09", "exploration", c09Rule)
	defer ev.Write()
	if replaySeq(t, ev, seqOpts{}) {
		return
	}
	regressSeq(t, ev, seqOpts{})
	pairs := map[string]bool{}
	prop := func(pair *[2]uint8) func(rt *rapid.T) {
		return func(rt *rapid.T) {
			if pastDeadline() {
				ev.Skip()
				return
			}
			c := genC09(rt, pair)
			st, v := runSeq(c, seqOpts{})
			for _, p := range st.BitPairs {
				pairs[p] = true
			}
			ev.Record(c, st.TranslatedNT, c09Classes(c, st)...)
			if v != nil && ev.Report(v, c) {
				rt.Fatalf("%v", v)
			}
		}
	}
	setRapidChecks(budget(6000, 12000))
	rapid.Check(t, prop(nil))
	// Fixed pairs: two touching >= 20 bits in quick, all 289 in thorough
	// (spread over the shards).
	var fixed [][2]uint8
	if thorough() {
		n := 0
		for a := uint8(8); a <= 24; a++ {
			for b := uint8(8); b <= 24; b++ {
				if n%envShards == envShard {
					fixed = append(fixed, [2]uint8{a, b})
				}
				n++
			}
		}
	} else if envShard == 0 {
		fixed = [][2]uint8{{12, 21}, {20, 9}}
	}
	for _, p := range fixed {
		p := p
		setRapidChecks(1)
		rapid.Check(t, prop(&p))
	}
	ev.Extra["distinct_bit_pairs"] = len(pairs)
	ev.finish(t)
}
