package checks

import (
	"bytes"
	"errors"
	"fmt"
	"os"
	"sort"
	"strings"
	"sync"
	"sync/atomic"
	"time"

	"github.com/anishathalye/porcupine"
	"github.com/ipld/go-storethehash/store"
	"github.com/ipld/go-storethehash/store/types"
)

// ConcCase is a concurrent history: a sequential prefix, then tasks that run
// under the cooperative scheduler (or freely).
type ConcCase struct {
	Cfg    Config    `json:"cfg"`
	Keys   []KeySpec `json:"keys"`
	Prefix []Op      `json:"prefix"`
	Tasks  [][]Op    `json:"tasks"`
	// SingleWriter: key k is only written by task k % len(Tasks) (writers of
	// different keys of one bucket still overlap freely).
	SingleWriter bool      `json:"single_writer"`
	Sched        SchedSpec `json:"sched"`
	Free         bool      `json:"free"` // free-running: real goroutines, periodic flusher started, no scheduler
}

type histOp struct {
	Task     int
	Idx      int
	Kind     string
	Key      int
	In       []byte
	Found    bool
	Out      []byte
	Size     int
	Removed  bool
	Exists   bool
	Err      error
	Call     int64
	Ret      int64
	Mutating bool
}

type concStats struct {
	overlapSameBucket bool
	preempt           int
	gcMutated         bool
	gcOverlap         bool
	tuples            []string
	hang              bool
	errs              int
}

func isMutating(kind string) bool { return kind == opPut || kind == opRePut || kind == opRemove }

// linState is the per-key register of the linearizability model.
type linState struct {
	Present bool
	Val     string
}

type linIn struct {
	Kind      string
	Key       int
	Val       string
	Immutable bool
}

type linOut struct {
	Found   bool
	Val     string
	Size    int
	Removed bool
	Exists  bool
}

var linModel = porcupine.Model{
	Partition: func(history []porcupine.Operation) [][]porcupine.Operation {
		m := map[int][]porcupine.Operation{}
		var keys []int
		for _, op := range history {
			k := op.Input.(linIn).Key
			if _, ok := m[k]; !ok {
				keys = append(keys, k)
			}
			m[k] = append(m[k], op)
		}
		sort.Ints(keys)
		out := make([][]porcupine.Operation, 0, len(keys))
		for _, k := range keys {
			out = append(out, m[k])
		}
		return out
	},
	Init: func() interface{} { return linState{} },
	Step: func(state, input, output interface{}) (bool, interface{}) {
		st := state.(linState)
		in := input.(linIn)
		out := output.(linOut)
		switch in.Kind {
		case "init":
			return true, linState{true, in.Val}
		case opPut, opRePut:
			if in.Immutable {
				if st.Present {
					return out.Exists, st
				}
				return !out.Exists, linState{true, in.Val}
			}
			return true, linState{true, in.Val}
		case opRemove:
			return out.Removed == st.Present, linState{}
		case opGet:
			return out.Found == st.Present && (!out.Found || out.Val == st.Val), st
		case opHas:
			return out.Found == st.Present, st
		case opSize:
			return out.Found == st.Present && (!out.Found || out.Size == len(st.Val)), st
		}
		return false, st
	},
	Equal: func(a, b interface{}) bool { return a.(linState) == b.(linState) },
	DescribeOperation: func(input, output interface{}) string {
		in := input.(linIn)
		out := output.(linOut)
		return fmt.Sprintf("%s(k%d,%x) -> found=%v val=%x size=%d removed=%v exists=%v", in.Kind, in.Key, in.Val, out.Found, out.Val, out.Size, out.Removed, out.Exists)
	},
}

// runConc executes a concurrent case and applies the no-error clause and the
// linearizability oracle.
func runConc(c ConcCase) (st concStats, v *Violation) {
	dir := newScratch("conc")
	defer os.RemoveAll(dir)
	var extra []store.Option
	if c.Free {
		extra = append(extra, store.SyncInterval(time.Millisecond))
	}
	s, err := openStore(dir, c.Cfg, extra...)
	if err != nil {
		return st, viol("open-error|open|"+errClass(err), -1, "cannot open store: %v", err)
	}
	closed := false
	defer func() {
		if !closed {
			closeQuietly(s)
		}
	}()
	// Sequential prefix against the map model.
	pre := &seqRunner{c: SeqCase{Cfg: c.Cfg, Keys: c.Keys, Ops: c.Prefix}, dir: dir, s: s, model: map[string][]byte{}, everFlushed: map[string]bool{}}
	pre.stats.GCKinds = map[string]bool{}
	for i, op := range c.Prefix {
		i, op := i, op
		if v := guard(i, op.K, func() *Violation { return pre.step(i, op) }); v != nil {
			st.errs++
			return st, viol("foreign-prefix-failure|"+v.Signature, i, "sequential prefix failed: %s", v.Detail)
		}
	}
	s = pre.s // a reopen in the prefix replaces the store
	if c.Free {
		s.Start()
	}

	var clock atomic.Int64
	var hmu sync.Mutex
	var hist []histOp
	pc := newPointCounter()
	exec := func(task, idx int, op Op) histOp {
		h := histOp{Task: task, Idx: idx, Kind: op.K, Key: op.Key % len(c.Keys), Mutating: isMutating(op.K)}
		ks := c.Keys[h.Key]
		key := ks.Encode(c.Cfg.Primary, op.Alt)
		switch op.K {
		case opPut, opRePut:
			h.In = valueFor(1000+task*100+idx, op.VLen, op.VNil)
		}
		h.Call = clock.Add(1)
		func() {
			defer func() {
				if r := recover(); r != nil {
					if ie, ok := r.(infraError); ok {
						panic(ie)
					}
					h.Err = fmt.Errorf("panic: %v", r)
				}
			}()
			switch op.K {
			case opPut, opRePut:
				err := s.Put(key, h.In)
				if errors.Is(err, types.ErrKeyExists) && c.Cfg.Immutable {
					h.Exists = true
				} else {
					h.Err = err // key-exists is an answer of immutable stores only
				}
			case opRemove:
				h.Removed, h.Err = s.Remove(key)
			case opGet:
				var out []byte
				out, h.Found, h.Err = s.Get(key)
				h.Out = append([]byte{}, out...)
			case opHas:
				h.Found, h.Err = s.Has(key)
			case opSize:
				var sz types.Size
				sz, h.Found, h.Err = s.GetSize(key)
				h.Size = int(sz)
			case opFlush:
				h.Err = s.Flush()
			case opPGC:
				if mp := mhPrimaryOf(s); mp != nil {
					_, err := mp.GC(bg, int64(op.A))
					_ = err // an error return of a cycle is not a violation by itself
				}
			case opIGC:
				s.Index().VerifGC(bg, op.A%2 == 1)
			}
		}()
		h.Ret = clock.Add(1)
		return h
	}

	var sch *scheduler
	if !c.Free {
		sch = newScheduler()
		sch.install()
	} else {
		pc.install()
	}
	var wg sync.WaitGroup
	for ti, ops := range c.Tasks {
		ti, ops := ti, ops
		body := func(yield func(string)) {
			for oi, op := range ops {
				if c.SingleWriter && isMutating(op.K) {
					// Route the write to a key owned by this task.
					k := op.Key % len(c.Keys)
					k = k - k%len(c.Tasks) + ti
					if k >= len(c.Keys) {
						k = ti % len(c.Keys)
						if k%len(c.Tasks) != ti {
							continue // no key owned by this task
						}
					}
					op.Key = k
				}
				h := exec(ti, oi, op)
				hmu.Lock()
				hist = append(hist, h)
				hmu.Unlock()
				yield("op.done")
			}
		}
		if c.Free {
			wg.Add(1)
			go func() {
				defer wg.Done()
				body(func(string) {})
			}()
		} else {
			sch.spawn(fmt.Sprintf("t%d", ti), body)
		}
	}
	if c.Free {
		done := make(chan struct{})
		go func() { wg.Wait(); close(done) }()
		select {
		case <-done:
		case <-time.After(20 * time.Second):
			st.hang = true
		}
		pc.uninstall()
	} else {
		allDone := sch.run(c.Sched.policy(), 6000)
		st.preempt = sch.preempt
		sch.release()
		if !allDone {
			// Let blocked tasks finish freely.
			if !sch.join(20 * time.Second) {
				st.hang = true
			}
		}
		sch.uninstall()
		if dbgTrace {
			fmt.Println("ARRIVALS", sch.arrivals)
			fmt.Println("TRACE", sch.trace)
		}
		for _, a := range sch.arrivals {
			p := a[strings.IndexByte(a, '@')+1:]
			if strings.HasPrefix(p, "pgc.") || strings.HasPrefix(p, "igc.") {
				switch p {
				case "pgc.fl.mark", "pgc.reap.merge", "pgc.reap.truncate", "pgc.header", "pgc.unlink", "pgc.reap.relocate",
					"igc.reap.mark", "igc.reap.merge", "igc.reap.truncate", "igc.header", "igc.unlink", "igc.free.truncate", "igc.free.unlink":
					st.gcMutated = true
				}
			}
		}
	}
	if st.hang {
		return st, nil // inconclusive; deadlocks are judged by C12/C17's state-based closure
	}
	hmu.Lock()
	defer hmu.Unlock()

	// Overlap analysis.
	overlap := func(a, b histOp) bool { return a.Call < b.Ret && b.Call < a.Ret }
	sameKeyWriteOverlap := func(h histOp) bool {
		for _, o := range hist {
			if (o.Task != h.Task || o.Idx != h.Idx) && o.Key == h.Key && o.Mutating && h.Mutating && overlap(o, h) {
				return true
			}
		}
		// As the recorded finding says (and as the linearizability branch
		// below does): two overlapping writers of ONE key can damage the entry
		// of ANOTHER key of the bucket, because Index.Update / Remove match by
		// stored prefix. The damage stays, so any such pair that began before h
		// ended counts, whatever key of h's bucket it wrote.
		hb := bucketOf(c.Keys[h.Key].Digest, c.Cfg.Bits)
		for i, a := range hist {
			for _, b := range hist[i+1:] {
				if a.Task != b.Task && a.Key == b.Key && a.Mutating && b.Mutating && overlap(a, b) &&
					a.Call < h.Ret && b.Call < h.Ret && bucketOf(c.Keys[a.Key].Digest, c.Cfg.Bits) == hb {
					return true
				}
			}
		}
		return false
	}
	gcOverlap := func(h histOp) bool {
		for _, o := range hist {
			if (o.Kind == opPGC || o.Kind == opIGC) && overlap(o, h) {
				return true
			}
		}
		return false
	}
	hasGC := false
	for i, a := range hist {
		if a.Kind == opPGC || a.Kind == opIGC {
			hasGC = true
		}
		for _, b := range hist[i+1:] {
			if a.Task == b.Task || !overlap(a, b) {
				continue
			}
			if (a.Kind == opPGC || a.Kind == opIGC) != (b.Kind == opPGC || b.Kind == opIGC) {
				st.gcOverlap = true
			}
			if (a.Mutating || b.Mutating) && a.Kind != opFlush && b.Kind != opFlush &&
				bucketOf(c.Keys[a.Key].Digest, c.Cfg.Bits) == bucketOf(c.Keys[b.Key].Digest, c.Cfg.Bits) {
				st.overlapSameBucket = true
				rel := "same-bucket"
				if a.Key == b.Key {
					rel = "same-key"
				}
				st.tuples = append(st.tuples, a.Kind+"||"+b.Kind+"/"+rel)
			}
		}
	}
	supersededDuringOpWithPGC := func(h histOp) bool {
		// Another task wrote the same key while h was in progress, and a
		// primary GC cycle overlapped h as well: h may hold a primary
		// location that was superseded, freed and reclaimed under it.
		wrote, pgc := false, false
		for _, o := range hist {
			if o.Task == h.Task {
				continue
			}
			// The index lookup of h may land on the entry of any key of its
			// bucket that shares the stored prefix.
			if o.Mutating && overlap(o, h) && bucketOf(c.Keys[o.Key].Digest, c.Cfg.Bits) == bucketOf(c.Keys[h.Key].Digest, c.Cfg.Bits) {
				wrote = true
			}
			if o.Kind == opPGC && overlap(o, h) {
				pgc = true
			}
		}
		return wrote && pgc
	}
	ctxOf := func(h histOp) string {
		var parts []string
		if sameKeyWriteOverlap(h) {
			parts = append(parts, "same-key-writers-overlap")
		}
		if hasGC && supersededDuringOpWithPGC(h) {
			parts = append(parts, "superseded-during-op-with-pgc")
		} else if hasGC && gcOverlap(h) {
			parts = append(parts, "gc-overlap")
		}
		if len(parts) == 0 {
			return "no-overlapping-writer-or-gc"
		}
		return strings.Join(parts, "+")
	}
	// No-error clause.
	for _, h := range hist {
		if h.Err != nil && errors.Is(h.Err, types.ErrKeyExists) {
			// Not one of the ways in which overlapping writers of one key are
			// known to fail (KF-C05): no context tag, always reported.
			st.errs++
			return st, viol("concurrent-error|"+h.Kind+"|key-exists-on-a-store-that-accepts-updates|", h.Idx, "task %d: %s(key %x) returned %v although the store was not opened in immutable mode", h.Task, h.Kind, c.Keys[h.Key].Digest, h.Err)
		}
		if h.Err != nil {
			st.errs++
			return st, viol("concurrent-error|"+h.Kind+"|"+errClass(h.Err)+"|"+ctxOf(h), h.Idx, "task %d: %s(key %x) returned %v", h.Task, h.Kind, c.Keys[h.Key].Digest, h.Err)
		}
	}
	// Final sequential read of every key.
	var finals []histOp
	for k := range c.Keys {
		h := exec(len(c.Tasks), k, Op{K: opGet, Key: k})
		if h.Err != nil {
			st.errs++
			return st, viol("concurrent-error|final-get|"+errClass(h.Err)+"|after-quiescence", k, "final Get(key %x) returned %v", c.Keys[k].Digest, h.Err)
		}
		finals = append(finals, h)
	}
	// Linearizability per key.
	var ops []porcupine.Operation
	for k, ks := range c.Keys {
		if val, ok := pre.model[string(ks.Digest)]; ok {
			ops = append(ops, porcupine.Operation{ClientId: 0, Input: linIn{Kind: "init", Key: k, Val: string(val)}, Call: -2, Output: linOut{}, Return: -1})
		}
	}
	toOp := func(h histOp) porcupine.Operation {
		return porcupine.Operation{ClientId: h.Task + 1, Input: linIn{Kind: h.Kind, Key: h.Key, Val: string(h.In), Immutable: c.Cfg.Immutable},
			Call: h.Call, Output: linOut{Found: h.Found, Val: string(h.Out), Size: h.Size, Removed: h.Removed, Exists: h.Exists}, Return: h.Ret}
	}
	for _, h := range append(append([]histOp{}, hist...), finals...) {
		switch h.Kind {
		case opFlush, opPGC, opIGC:
			continue
		}
		ops = append(ops, toOp(h))
	}
	res := porcupine.CheckOperationsTimeout(linModel, ops, 20*time.Second)
	if res == porcupine.Illegal {
		// Find the offending key for the report.
		badKey, kinds, ctx := -1, map[string]bool{}, "no-overlapping-writer-or-gc"
		for k := range c.Keys {
			var sub []porcupine.Operation
			for _, o := range ops {
				if o.Input.(linIn).Key == k {
					sub = append(sub, o)
				}
			}
			if porcupine.CheckOperationsTimeout(linModel, sub, 10*time.Second) == porcupine.Illegal {
				badKey = k
				break
			}
		}
		var lines []string
		// Two overlapping writers of one key can also damage the entry of
		// another key of the bucket (Index.Update and Remove match by
		// stored prefix): same root cause as the same-key race.
		if badKey >= 0 {
			for i, a := range hist {
				for _, b := range hist[i+1:] {
					if a.Task != b.Task && a.Key == b.Key && a.Mutating && b.Mutating && overlap(a, b) &&
						bucketOf(c.Keys[a.Key].Digest, c.Cfg.Bits) == bucketOf(c.Keys[badKey].Digest, c.Cfg.Bits) {
						ctx = "same-key-writers-overlap"
					}
				}
			}
		}
		for _, h := range hist {
			// An operation on another key of the bucket may have held (and
			// then dropped) this key's entry.
			if badKey >= 0 && h.Key != badKey && h.Kind != opFlush && h.Kind != opPGC && h.Kind != opIGC &&
				bucketOf(c.Keys[h.Key].Digest, c.Cfg.Bits) == bucketOf(c.Keys[badKey].Digest, c.Cfg.Bits) && hasGC && supersededDuringOpWithPGC(h) {
				ctx = "superseded-during-op-with-pgc"
			}
		}
		for _, h := range append(append([]histOp{}, hist...), finals...) {
			if h.Key == badKey && h.Kind != opFlush && h.Kind != opPGC && h.Kind != opIGC {
				kinds[h.Kind] = true
				lines = append(lines, fmt.Sprintf("t%d[%d,%d] %s", h.Task, h.Call, h.Ret, linModel.DescribeOperation(toOp(h).Input, toOp(h).Output)))
				if c := ctxOf(h); c != "no-overlapping-writer-or-gc" && (ctx == "no-overlapping-writer-or-gc" || len(c) > len(ctx)) {
					ctx = c
				}
			}
		}
		var ks []string
		for k := range kinds {
			ks = append(ks, k)
		}
		sort.Strings(ks)
		symptom := "history"
		if badKey >= 0 {
			// Was a value read that was never written for the key?
			written := [][]byte{}
			if v0, ok := pre.model[string(c.Keys[badKey].Digest)]; ok {
				written = append(written, v0)
			}
			for _, h := range hist {
				if h.Key == badKey && h.Mutating {
					written = append(written, h.In)
				}
			}
			for _, h := range append(append([]histOp{}, hist...), finals...) {
				if h.Key == badKey && h.Kind == opGet && h.Found {
					ok := false
					for _, w := range written {
						if bytes.Equal(w, h.Out) {
							ok = true
						}
					}
					if !ok {
						symptom = "bytes-never-written-for-key"
					}
				}
			}
		}
		return st, viol("not-linearizable|"+strings.Join(ks, ",")+"|"+symptom+"|"+ctx, 0, "operations on key %x admit no linearization (initial value from prefix: %v): %s", c.Keys[max(badKey, 0)].Digest, pre.model[string(c.Keys[max(badKey, 0)].Digest)], strings.Join(lines, "; "))
	}
	// Orderly close.
	closed = true
	if err := s.Close(); err != nil {
		return st, viol("concurrent-error|close|"+errClass(err)+"|after-quiescence", 0, "Close returned %v", err)
	}
	// Cold read-back: the just-flushed pools can hide damage done to the
	// files (a record list truncated under a flush is still served from
	// memory). After all activity stopped, the reopened store must show
	// exactly what the final reads showed.
	s2, err := openStore(dir, c.Cfg)
	if err != nil {
		return st, viol("reopen-after-quiescence|open|"+errClass(err)+"|after-quiescence", 0, "reopen after the concurrent phase failed: %v", err)
	}
	defer closeQuietly(s2)
	keyCtx := func(k int) string {
		ctx := "after-quiescence"
		for i, a := range hist {
			for _, b := range hist[i+1:] {
				if a.Task != b.Task && a.Key == b.Key && a.Mutating && b.Mutating && overlap(a, b) &&
					bucketOf(c.Keys[a.Key].Digest, c.Cfg.Bits) == bucketOf(c.Keys[k].Digest, c.Cfg.Bits) {
					ctx = "same-key-writers-overlap"
				}
			}
		}
		for _, h := range hist {
			if h.Kind != opFlush && h.Kind != opPGC && h.Kind != opIGC && hasGC && supersededDuringOpWithPGC(h) &&
				bucketOf(c.Keys[h.Key].Digest, c.Cfg.Bits) == bucketOf(c.Keys[k].Digest, c.Cfg.Bits) {
				ctx = "superseded-during-op-with-pgc"
			}
		}
		return ctx
	}
	for k, ks := range c.Keys {
		got, found, err := s2.Get(ks.Encode(c.Cfg.Primary, false))
		if err != nil {
			return st, viol("reopen-after-quiescence|get|"+errClass(err)+"|"+keyCtx(k), k, "after close and reopen Get(key %x) returned %v", ks.Digest, err)
		}
		f := finals[k]
		if found != f.Found || (found && !bytes.Equal(got, f.Out)) {
			return st, viol("reopen-after-quiescence|get|differs-from-final-read|"+keyCtx(k), k, "after close and reopen Get(key %x) = (%s, %v), the final read before Close returned (%s, %v)", ks.Digest, shortBytes(got), found, shortBytes(f.Out), f.Found)
		}
	}
	return st, nil
}

var dbgTrace bool
