package checks

import (
	"fmt"
	"os"
	"path/filepath"
	"strings"
	"sync"
	"testing"
	"time"

	"github.com/multiformats/go-multihash"

	"github.com/ipld/go-storethehash/store"
	"github.com/ipld/go-storethehash/store/vhook"
	"pgregory.net/rapid"
)

// SchedSpec selects the schedule of a concurrent case.
type SchedSpec struct {
	Kind     int    `json:"kind"` // 0 single long preemption, 1 PCT, 2 random walk, 3 double preemption
	A        int    `json:"a,omitempty"`
	Point    string `json:"point,omitempty"`
	N        int    `json:"n,omitempty"`
	B        int    `json:"b,omitempty"` // double preemption: second task
	PointB   string `json:"point_b,omitempty"`
	NB       int    `json:"nb,omitempty"`
	Order    []int  `json:"order,omitempty"`
	Prio     []int  `json:"prio,omitempty"`
	ChangeAt []int  `json:"change_at,omitempty"`
	Choices  []int  `json:"choices,omitempty"`
}

func (sp SchedSpec) policy() policy {
	switch sp.Kind {
	case 0:
		n := sp.N
		if n < 1 {
			n = 1
		}
		return singlePreemption{a: sp.A, point: sp.Point, n: n, order: sp.Order}
	case 1:
		return pct{prio: sp.Prio, changeAt: sp.ChangeAt}
	case 3:
		return doublePreemption{a: sp.A, b: sp.B, pa: sp.Point, pb: sp.PointB, na: max(sp.N, 1), nb: max(sp.NB, 1), order: sp.Order, phase: new(int)}
	}
	return randomWalk{choices: sp.Choices}
}

func genSched(t *rapid.T, nTasks int, points []string) SchedSpec {
	sp := SchedSpec{Kind: weighted(t, "sched", []int{5, 2, 3})}
	switch sp.Kind {
	case 0:
		sp.A = rapid.IntRange(0, nTasks-1).Draw(t, "a")
		sp.Point = points[rapid.IntRange(0, len(points)-1).Draw(t, "point")]
		sp.N = rapid.IntRange(1, 2).Draw(t, "n")
		sp.Order = rapid.Permutation(seqInts(nTasks+1)).Draw(t, "order")
	case 1:
		sp.Prio = rapid.Permutation(seqInts(nTasks+1)).Draw(t, "prio")
		sp.ChangeAt = rapid.SliceOfN(rapid.IntRange(1, 60), 0, 3).Draw(t, "changeat")
	default:
		sp.Choices = rapid.SliceOfN(rapid.IntRange(0, 7), 4, 40).Draw(t, "choices")
	}
	return sp
}

func seqInts(n int) []int {
	out := make([]int, n)
	for i := range out {
		out[i] = i
	}
	return out
}

// C12Case: rate-limited writers, explicit flushes and the periodic flusher.
type C12Case struct {
	Keys     []KeySpec `json:"keys"`
	Writers  [][]Op    `json:"writers"`
	Flushers []int     `json:"flushers"` // number of Flush calls per explicit flush task
	Sched    SchedSpec `json:"sched"`
	// Free: no scheduler. FreeWriters goroutines are released at once, each
	// issuing one Put, FreeRounds times; windows that have no named point
	// inside them are only reachable this way.
	Free        bool `json:"free,omitempty"`
	FreeWriters int  `json:"free_writers,omitempty"`
	FreeRounds  int  `json:"free_rounds,omitempty"`
	// Self: a single writer with no other traffic on a store with a positive
	// burst rate; no explicit Flush is ever issued by the harness, so each
	// waiting write must be released by the flush it asked for itself.
	Self    bool `json:"self,omitempty"`
	Burst   int  `json:"burst,omitempty"`
	SelfOps []Op `json:"self_ops,omitempty"`
	// SyncUS: interval of the periodic flusher in the free-running and the
	// single-writer part (0 = one hour, i.e. no periodic flush at all), so
	// that ticks and writers' signals meet.
	SyncUS int `json:"sync_us,omitempty"`
	// LateStart (single-writer part): Store.Start is only called once the
	// first call waits for the flush notice (or has returned): the request
	// for a flush it left behind must still be honoured.
	LateStart bool `json:"late_start,omitempty"`
}

func (c C12Case) syncInterval() time.Duration {
	if c.SyncUS > 0 {
		return time.Duration(c.SyncUS) * time.Microsecond
	}
	return time.Hour
}

const c12Rule = "1-3 writer tasks (Put/Remove) on a store with BurstRate(0) and a pinned tiny flush rate (verif-tagged setter) so that every write enters the waiting path, the real flusher goroutine adopted as a scheduled task at its first named point, 0-2 explicit Flush tasks; the cooperative scheduler parks tasks at the named points in flushTick (measured, decided, registered, signalled), Flush and run and follows a generated schedule (single long preemption at a drawn point, PCT-style priorities, random walk); " +
	"oracle = bounded-liveness closure: after the generated schedule everything runs freely and three further explicit Flush() calls complete; every writer must return. The verdict is taken from goroutine states, not from elapsed time: a writer still in the channel receive of the back-pressure wait while the flusher sits idle in its select and no Flush is in progress can never be released. " +
	"Failed-flush part: a store that is not started (explicit flushes only), a waiting writer, one Flush made to fail by a stray file at the next primary file name, the stray file removed, three more Flush calls: the writer must be released (state-based verdict). " +
	"Single-writer part: one writer, burst rates 0..4000, 5-60 Put/Remove calls with values of 1-200 bytes on keys of few buckets, periodic interval one hour (or 20 us..1 ms, so that ticks meet the writer's signals) and no Flush issued by the harness: a call that waits must be released by the flush it asked for itself (same state-based verdict, taken while the call is still waiting); in a quarter of the cases Store.Start is only called once the first call waits (or has returned), and the request for a flush it left behind must still be honoured. " +
	"non-trivial = a flush completed between a writer's decision to wait and its registration for the notice (observed in the event order); (scheduled part), >=2 writers (free-running part), the writer did enter the wait (single-writer part); distinct = distinct canonical JSON of the case"

var c12Points = []string{"tick.measured", "tick.decided", "tick.registered", "tick.signalled", "flush.stamped", "flush.committed", "put.indexed", "remove.done", "run.flushNow"}

func genC12(t *rapid.T) C12Case {
	var c C12Case
	cfg := Config{Primary: store.MultihashPrimary, Bits: 8}
	c.Keys = genKeys(t, cfg, 3, 6)
	c.Keys = extendKeys(c.Keys, 3)
	nw := rapid.IntRange(1, 3).Draw(t, "writers")
	for w := 0; w < nw; w++ {
		ops := rapid.SliceOfN(rapid.Custom(func(t *rapid.T) Op {
			op := Op{K: []string{opPut, opRemove}[weighted(t, "kind", []int{4, 1})]}
			op.Key = rapid.IntRange(0, len(c.Keys)-1).Draw(t, "key")
			op.VLen = rapid.IntRange(1, 20).Draw(t, "vlen")
			return op
		}), 1, 3).Draw(t, "wops")
		c.Writers = append(c.Writers, ops)
	}
	nf := rapid.IntRange(0, 2).Draw(t, "flushers")
	for f := 0; f < nf; f++ {
		c.Flushers = append(c.Flushers, rapid.IntRange(1, 2).Draw(t, "nflush"))
	}
	c.Sched = genSched(t, nw+nf, c12Points)
	if c.Sched.Kind == 0 && c.Sched.A >= nw && weighted(t, "preemptWriter", []int{1, 3}) == 1 {
		c.Sched.A = rapid.IntRange(0, nw-1).Draw(t, "aw")
		c.Sched.Point = c12Points[rapid.IntRange(0, 3).Draw(t, "tickpoint")]
	}
	return c
}

// runC12Free: rounds of simultaneously released rate-limited writers on a
// started store; after each round every writer must have returned, judged by
// the same state-based closure.
func runC12Free(c C12Case) (st c12Stats, v *Violation) {
	dir := newScratch("bpf")
	defer os.RemoveAll(dir)
	s, err := store.OpenStore(bg, store.MultihashPrimary, dir+"/"+dataBase, dir+"/"+idxBase, false,
		store.IndexBitSize(8), store.IndexFileSize(1<<20), store.PrimaryFileSize(1<<20),
		store.GCInterval(0), store.SyncInterval(time.Hour), store.BurstRate(0))
	if err != nil {
		panic(infraError{err})
	}
	s.VerifPinFlushRate(1e-9)
	defer vhook.PinRate(0)
	baseline := map[int64]bool{}
	for _, g := range moduleGoroutines() {
		baseline[g.id] = true
	}
	s.Start()
	stuck := false
	for r := 0; r < c.FreeRounds && v == nil; r++ {
		start := make(chan struct{})
		var done sync.WaitGroup
		for w := 0; w < c.FreeWriters; w++ {
			w := w
			done.Add(1)
			go func() {
				defer done.Done()
				d := []byte{byte(r), byte(r >> 8), byte(w), 0x55, byte(r >> 16), 1, 2, 3}
				key, _ := multihash.Encode(d, multihash.IDENTITY)
				<-start
				s.Put(key, []byte{byte(w), byte(r)})
			}()
		}
		fin := make(chan struct{})
		go func() { done.Wait(); close(fin) }()
		close(start)
		select {
		case <-fin:
			continue
		case <-time.After(300 * time.Millisecond):
		}
		// Closure: three explicit flushes, then judge by state.
		for i := 0; i < 3; i++ {
			s.Flush()
		}
		deadline := time.Now().Add(8 * time.Second)
		for v == nil {
			select {
			case <-fin:
			case <-time.After(30 * time.Millisecond):
			}
			select {
			case <-fin:
			default:
				waiting, flusherIdle, flushing := 0, false, false
				for _, g := range moduleGoroutines() {
					if baseline[g.id] {
						continue
					}
					switch {
					case strings.Contains(g.stack, ".(*Store).flushTick") && g.state == "chan receive":
						waiting++
					case strings.Contains(g.stack, ".(*Store).run") && g.state == "select" && !strings.Contains(g.stack, ".(*Store).Flush"):
						flusherIdle = true
					case strings.Contains(g.stack, ".(*Store).Flush") || strings.Contains(g.stack, ".(*Store).commit"):
						flushing = true
					}
				}
				if waiting > 0 && flusherIdle && !flushing {
					time.Sleep(60 * time.Millisecond)
					select {
					case <-fin:
					default:
						v = viol("writer-never-released|closure|lost-wake-up", r, "free-running round %d with %d simultaneously released writers: %d writer(s) still wait for the flush notice although three explicit Flush() calls completed afterwards, the flusher is idle and no flush is in progress", r, c.FreeWriters, waiting)
						stuck = true
					}
				} else if time.Now().After(deadline) {
					st.skipped = true
					stuck = true
					v = nil
				}
				if st.skipped {
					break
				}
				continue
			}
			break
		}
		if st.skipped {
			break
		}
	}
	st.windowHit = true
	if stuck {
		go s.Close()
	} else {
		s.Close()
	}
	return st, v
}

type c12Stats struct {
	selfBlocked  bool
	lateStartHit bool
	windowHit    bool
	allDone      bool
	preempt      int
	skipped      bool
	foreignErr   string
}

// runC12Self: "including a single writer with no other traffic". The writer's
// calls are issued one after the other; a call that enters the back-pressure
// wait has signalled the flusher itself, and the flush that follows completes
// after the wait began, so it must release the call. The harness issues no
// Flush of its own (the periodic interval is an hour). Verdict by state.
func runC12Self(c C12Case) (st c12Stats, v *Violation) {
	dir := newScratch("bps")
	defer os.RemoveAll(dir)
	s, err := store.OpenStore(bg, store.MultihashPrimary, dir+"/"+dataBase, dir+"/"+idxBase, false,
		store.IndexBitSize(8), store.IndexFileSize(1<<20), store.PrimaryFileSize(1<<20),
		store.GCInterval(0), store.SyncInterval(c.syncInterval()), store.BurstRate(uint64(c.Burst)))
	if err != nil {
		panic(infraError{err})
	}
	s.VerifPinFlushRate(1e-9)
	defer vhook.PinRate(0)
	baseline := map[int64]bool{}
	for _, g := range moduleGoroutines() {
		baseline[g.id] = true
	}
	pc := newPointCounter()
	pc.install()
	defer pc.uninstall()
	if !c.LateStart {
		s.Start()
	}
	stuck := false
	for i, op := range c.SelfOps {
		key := c.Keys[op.Key%len(c.Keys)].Encode(store.MultihashPrimary, false)
		done := make(chan struct{})
		go func() {
			defer close(done)
			if op.K == opRemove {
				s.Remove(key)
			} else {
				s.Put(key, valueFor(i, op.VLen, false))
			}
		}()
		if c.LateStart && i == 0 {
			// Start the store when the call waits (or is over).
			for until := time.Now().Add(2 * time.Second); time.Now().Before(until); {
				select {
				case <-done:
					until = time.Now()
				case <-time.After(time.Millisecond):
				}
				n := 0
				for _, g := range moduleGoroutines() {
					if !baseline[g.id] && strings.Contains(g.stack, ".(*Store).flushTick") && g.state == "chan receive" {
						n++
					}
				}
				if n > 0 {
					st.lateStartHit = true
					break
				}
			}
			s.Start()
		}
		deadline := time.Now().Add(8 * time.Second)
		quiet := 0
	wait:
		for {
			select {
			case <-done:
				break wait
			case <-time.After(5 * time.Millisecond):
			}
			waiting, flusherIdle, flushing := 0, false, false
			for _, g := range moduleGoroutines() {
				if baseline[g.id] {
					continue
				}
				switch {
				case strings.Contains(g.stack, ".(*Store).flushTick") && g.state == "chan receive":
					waiting++
				case strings.Contains(g.stack, ".(*Store).run") && g.state == "select" && !strings.Contains(g.stack, ".(*Store).Flush"):
					// Idle for good only if the next tick is an hour away.
					flusherIdle = c.SyncUS == 0
				case strings.Contains(g.stack, ".(*Store).run") && g.state == "chan send" && !strings.Contains(g.stack, ".(*Store).Flush"):
					// The flusher loop itself blocks in a channel send. Nothing
					// but this loop receives from the store's channels, so it
					// will never flush again.
					flusherIdle = true
					st.selfBlocked = true
				case strings.Contains(g.stack, ".(*Store).Flush") || strings.Contains(g.stack, ".(*Store).commit"):
					flushing = true
				}
			}
			if waiting > 0 && flusherIdle && !flushing {
				// The flush that was asked for is over (or never ran) and the
				// flusher is back in its select with an hour to go.
				quiet++
				if quiet >= 4 {
					select {
					case <-done:
						break wait
					default:
					}
					if st.selfBlocked {
						v = viol("writer-never-released|single-writer|flusher-blocked-in-its-own-loop", i, "call %d (%s, burst rate %d, periodic interval %v) waits for the flush notice while the flusher goroutine is blocked in a channel send inside its own loop (stable over 4 samples) and no flush is in progress: nobody else receives from that channel, so no flush will ever happen again", i, op.K, c.Burst, c.syncInterval())
						stuck = true
						break wait
					}
					if c.LateStart && i == 0 {
						v = viol("writer-never-released|single-writer|request-made-before-Start-lost", i, "call %d (%s, burst rate %d) began to wait for the flush notice before Store.Start was called; the store has been started since, the flusher is idle in its select (next periodic flush in an hour) and no flush is in progress: the writer's request for a flush was lost", i, op.K, c.Burst)
						stuck = true
						break wait
					}
					v = viol("writer-never-released|single-writer|not-released-by-its-own-flush", i, "call %d (%s, burst rate %d) of a single writer with no other traffic waits for the flush notice, the flusher is idle in its select (next periodic flush in an hour) and no flush is in progress: the flush the writer asked for has completed without releasing it", i, op.K, c.Burst)
					stuck = true
					break wait
				}
			} else {
				quiet = 0
			}
			if time.Now().After(deadline) {
				st.skipped = true
				stuck = true
				break wait
			}
		}
		if stuck {
			break
		}
	}
	st.windowHit = pc.get("tick.registered") > 0 // some call did enter the back-pressure wait
	st.preempt = pc.get("tick.registered")
	if stuck {
		// One explicit flush lets a stuck call go so that Close can finish.
		s.Flush()
		s.Flush()
		closeQuietly(s)
	} else {
		s.Close()
	}
	return st, v
}

// runC12Fault: "as long as flushes keep succeeding no caller waits forever"
// also holds after a flush that failed. The store is not started, so every
// flush is an explicit one: a writer waits, a stray file at the next file name
// makes one Flush fail, the stray file is removed, further Flush calls
// succeed - and the first of them must release the writer.
func runC12Fault(c C12Case) (st c12Stats, v *Violation) {
	dir := newScratch("bpx")
	defer os.RemoveAll(dir)
	prim := uint32(c.Burst) // reused: primary file size of this scenario
	s, err := store.OpenStore(bg, store.MultihashPrimary, dir+"/"+dataBase, dir+"/"+idxBase, false,
		store.IndexBitSize(8), store.IndexFileSize(1<<20), store.PrimaryFileSize(prim),
		store.GCInterval(0), store.SyncInterval(time.Hour), store.BurstRate(0))
	if err != nil {
		panic(infraError{err})
	}
	s.VerifPinFlushRate(1e-9)
	defer vhook.PinRate(0)
	baseline := map[int64]bool{}
	for _, g := range moduleGoroutines() {
		baseline[g.id] = true
	}
	waitingWriters := func() int {
		n := 0
		for _, g := range moduleGoroutines() {
			if !baseline[g.id] && strings.Contains(g.stack, ".(*Store).flushTick") && g.state == "chan receive" {
				n++
			}
		}
		return n
	}
	key := func(i int) []byte { return c.Keys[i%len(c.Keys)].Encode(store.MultihashPrimary, false) }
	// Earlier traffic: each write waits, and an explicit flush releases it.
	put := func(i int, vlen int) (done chan struct{}) {
		done = make(chan struct{})
		go func() {
			defer close(done)
			s.Put(key(i), valueFor(i, vlen, false))
		}()
		return done
	}
	awaitWaitOrDone := func(done chan struct{}) bool { // true: the writer waits
		deadline := time.Now().Add(5 * time.Second)
		for time.Now().Before(deadline) {
			select {
			case <-done:
				return false
			case <-time.After(2 * time.Millisecond):
			}
			if waitingWriters() > 0 {
				return true
			}
		}
		return false
	}
	for i, op := range c.SelfOps {
		d := put(i, op.VLen)
		if awaitWaitOrDone(d) {
			s.Flush()
		}
		select {
		case <-d:
		case <-time.After(5 * time.Second):
			st.skipped = true
			go closeQuietly(s)
			return st, nil
		}
	}
	// The fault.
	nums := numberedFiles(dir, dataBase)
	next := uint32(0)
	if len(nums) > 0 {
		next = nums[len(nums)-1] + 1
	}
	var strays []string
	for n := next; n < next+3; n++ {
		p := filepath.Join(dir, fmt.Sprintf("%s.%d", dataBase, n))
		os.WriteFile(p, []byte("stray"), 0o644)
		strays = append(strays, p)
	}
	d := put(1000, 40)
	if !awaitWaitOrDone(d) {
		st.skipped = true
		closeQuietly(s)
		return st, nil
	}
	st.windowHit = true
	flushErr := s.Flush()
	for _, p := range strays {
		os.Remove(p)
	}
	if flushErr == nil {
		// The flush did not have to roll over: nothing failed, nothing to see.
		s.Flush()
		<-d
		s.Close()
		return st, nil
	}
	st.preempt = 1 // the injected failure was hit
	// From here on flushes succeed. (The failed one may have written part of
	// the data; what matters here is only that the writer is released.)
	ok := 0
	for i := 0; i < 3; i++ {
		if s.Flush() == nil {
			ok++
		}
	}
	select {
	case <-d:
	case <-time.After(300 * time.Millisecond):
		stable := 0
		for i := 0; i < 5; i++ {
			time.Sleep(20 * time.Millisecond)
			if waitingWriters() > 0 {
				stable++
			}
		}
		select {
		case <-d:
		default:
			if ok > 0 && stable == 5 {
				v = viol("writer-never-released|after-failed-flush|", 0, "a writer waited, one Flush failed (%v), its cause was removed and %d of 3 further Flush calls returned nil, yet the writer still waits for the flush notice (stable over 5 samples, no flush in progress)", flushErr, ok)
			} else {
				st.skipped = true
			}
			s.Flush()
			go closeQuietly(s)
			return st, v
		}
	}
	s.Close()
	return st, nil
}

func runC12(c C12Case) (st c12Stats, v *Violation) {
	if c.Free {
		return runC12Free(c)
	}
	if c.Self && c.SyncUS < 0 {
		return runC12Fault(c)
	}
	if c.Self {
		return runC12Self(c)
	}
	dir := newScratch("bp")
	defer os.RemoveAll(dir)
	cfg := Config{Primary: store.MultihashPrimary, Bits: 8, IdxSize: 1024, PrimSize: 1024, FileCache: 8}
	s, err := store.OpenStore(bg, cfg.Primary, dir+"/"+dataBase, dir+"/"+idxBase, false,
		store.IndexBitSize(cfg.Bits), store.IndexFileSize(cfg.IdxSize), store.PrimaryFileSize(cfg.PrimSize),
		store.GCInterval(0), store.SyncInterval(time.Hour), store.BurstRate(0))
	if err != nil {
		panic(infraError{err})
	}
	s.VerifPinFlushRate(1e-9)
	defer vhook.PinRate(0)
	baseline := map[int64]bool{}
	for _, g := range moduleGoroutines() {
		baseline[g.id] = true // leftovers of earlier (failing) cases in this process
	}
	current := func() []gInfo {
		var out []gInfo
		for _, g := range moduleGoroutines() {
			if !baseline[g.id] {
				out = append(out, g)
			}
		}
		return out
	}
	sch := newScheduler()
	sch.adopt = func(point string) string {
		if strings.HasPrefix(point, "run.") {
			return "flusher"
		}
		return ""
	}
	sch.install()
	s.Start()
	var firstErr error
	for w, ops := range c.Writers {
		ops := ops
		sch.spawn(fmt.Sprintf("writer%d", w), func(yield func(string)) {
			for _, op := range ops {
				// Single writer per key: same-key write/write races are C05's subject.
				ki := (op.Key%len(c.Keys))/len(c.Writers)*len(c.Writers) + w
				if ki >= len(c.Keys) {
					ki = w % len(c.Keys)
				}
				key := c.Keys[ki].Encode(cfg.Primary, false)
				var err error
				if op.K == opPut {
					err = s.Put(key, valueFor(w*16+op.Key, op.VLen, false))
				} else {
					_, err = s.Remove(key)
				}
				if err != nil && firstErr == nil {
					firstErr = err
				}
				yield("op.done")
			}
		})
	}
	for f, n := range c.Flushers {
		n := n
		sch.spawn(fmt.Sprintf("flush%d", f), func(yield func(string)) {
			for i := 0; i < n; i++ {
				if err := s.Flush(); err != nil && firstErr == nil {
					firstErr = err
				}
				yield("op.done")
			}
		})
	}
	st.allDone = sch.run(c.Sched.policy(), 4000)
	st.preempt = sch.preempt
	// Closure: everything runs freely, three more flushes complete.
	sch.release()
	// Before any flush of the harness: a writer that waits while the flusher
	// idles in its select (next tick an hour away) and no flush is in progress
	// has lost the flush it asked for; only somebody else's flush could still
	// release it, and a single writer has nobody else.
	if v == nil {
		quiet := 0
		for i := 0; i < 60 && quiet < 8; i++ {
			time.Sleep(5 * time.Millisecond)
			waiting, flusherIdle, busy := 0, false, false
			for _, g := range current() {
				switch {
				case strings.Contains(g.stack, ".(*Store).flushTick") && g.state == "chan receive":
					waiting++
				case strings.Contains(g.stack, ".(*Store).run") && g.state == "select" && !strings.Contains(g.stack, ".(*Store).Flush"):
					flusherIdle = true
				default:
					busy = true // a flush, or any other call into the store, is under way
				}
			}
			if waiting == 0 && !busy {
				break
			}
			if waiting > 0 && flusherIdle && !busy {
				quiet++
			} else {
				quiet = 0
			}
		}
		if quiet >= 8 {
			sch.mu.Lock()
			evlog := append([]string{}, sch.arrivals...)
			sch.mu.Unlock()
			v = viol("writer-never-released|before-closure|request-for-flush-lost", 0, "after the generated schedule, with every task running freely and before any further Flush call: a writer waits for the flush notice, the flusher is idle in its select (periodic interval one hour), and nothing else is inside the store (stable over 8 samples): the flush this writer asked for has completed without releasing it, or was never started (event order: %s)", strings.Join(tail(evlog, 30), " "))
		}
	}
	for i := 0; i < 3; i++ {
		if err := s.Flush(); err != nil && firstErr == nil {
			firstErr = err
		}
	}
	// Did a flush complete between a writer's decision and its registration?
	sch.mu.Lock()
	evlog := append([]string{}, sch.arrivals...)
	sch.mu.Unlock()
	for w := range c.Writers {
		name := fmt.Sprintf("writer%d@", w)
		decided := -1
		for i, e := range evlog {
			switch {
			case e == name+"tick.decided":
				decided = i
			case e == name+"tick.registered":
				decided = -1
			case decided >= 0 && !strings.HasPrefix(e, name) && (strings.HasSuffix(e, "@flush.noticed") || strings.HasSuffix(e, "@flush.noWork")):
				st.windowHit = true
			}
		}
	}
	writersDone := func() bool {
		sch.mu.Lock()
		defer sch.mu.Unlock()
		for _, t := range sch.tasks {
			if t.adopted || t.finished == nil {
				continue
			}
			select {
			case <-t.finished:
			default:
				return false
			}
		}
		return true
	}
	drainDone := func() {
		for {
			select {
			case e := <-sch.events:
				sch.absorb(e)
			default:
				return
			}
		}
	}
	deadline := time.Now().Add(8 * time.Second)
	for {
		drainDone()
		if writersDone() {
			break
		}
		time.Sleep(20 * time.Millisecond)
		drainDone()
		if writersDone() {
			break
		}
		// Judge by state.
		waiting, flusherIdle, flushing := 0, false, false
		for _, g := range current() {
			switch {
			case strings.Contains(g.stack, ".(*Store).flushTick") && g.state == "chan receive":
				waiting++
			case strings.Contains(g.stack, ".(*Store).run") && g.state == "select" && !strings.Contains(g.stack, ".(*Store).Flush"):
				flusherIdle = true
			case strings.Contains(g.stack, ".(*Store).Flush") || strings.Contains(g.stack, ".(*Store).commit"):
				flushing = true
			}
		}
		if waiting > 0 && flusherIdle && !flushing {
			// Confirm that the state is stable.
			time.Sleep(50 * time.Millisecond)
			still := 0
			for _, g := range current() {
				if strings.Contains(g.stack, ".(*Store).flushTick") && g.state == "chan receive" {
					still++
				}
			}
			drainDone()
			if still > 0 && !writersDone() {
				v = viol("writer-never-released|closure|lost-wake-up", 0, "%d writer(s) still wait for the flush notice although three explicit Flush() calls completed afterwards, the flusher is idle in its select and no flush is in progress (event order: %s)", still, strings.Join(tail(evlog, 30), " "))
				break
			}
		}
		if time.Now().After(deadline) {
			st.skipped = true // inconclusive, never a violation
			break
		}
	}
	sch.uninstall()
	if firstErr != nil {
		st.foreignErr = errClass(firstErr) // judged by C05, not here
	}
	if v == nil || !strings.HasPrefix(v.Signature, "writer-never-released") {
		s.Close()
	} else {
		// The blocked writer cannot be released; stop the flusher at least.
		go s.Close()
	}
	return st, v
}

func tail(s []string, n int) []string {
	if len(s) > n {
		return s[len(s)-n:]
	}
	return s
}

func TestC12(t *testing.T) {
	ev := newEvidence("C12", "exploration", c12Rule)
	defer ev.Write()
	if envReplay != "" {
		var c C12Case
		readReplay(envReplay, &c)
		for i := 0; i < 10; i++ {
			_, v := runC12(c)
			ev.Record(c, true)
			if v != nil {
				ev.Report(v, c)
				t.Fatalf("replay: %v", v)
			}
		}
		return
	}
	for _, f := range regressFiles("C12") {
		var c C12Case
		readReplay(f, &c)
		for i := 0; i < 3; i++ {
			_, v := runC12(c)
			ev.Record(c, true, "regression-case")
			if v != nil && ev.Report(v, c) {
				t.Fatalf("regression case %s: %v", f, v)
			}
		}
	}
	setRapidChecks(budget(1200, 1500))
	rapid.Check(t, func(rt *rapid.T) {
		if pastDeadline() {
			ev.Skip()
			return
		}
		c := genC12(rt)
		st, v := runC12(c)
		cl := []string{fmt.Sprintf("sched-kind-%d", c.Sched.Kind)}
		if st.windowHit {
			cl = append(cl, "flush-completed-between-decision-and-registration")
		}
		if st.skipped {
			cl = append(cl, "inconclusive-timeout")
		}
		if st.preempt > 0 {
			cl = append(cl, "preempted-inside-operation")
		}
		if st.foreignErr != "" {
			cl = append(cl, "foreign-error: "+st.foreignErr)
		}
		ev.Record(c, st.windowHit, cl...)
		if v != nil && ev.Report(v, c) {
			rt.Fatalf("%v", v)
		}
	})
	// Free-running sub-campaign: windows without a named point inside.
	setRapidChecks(budget(160, 300))
	rapid.Check(t, func(rt *rapid.T) {
		if pastDeadline() {
			ev.Skip()
			return
		}
		c := C12Case{Free: true, FreeWriters: rapid.IntRange(2, 32).Draw(rt, "writers"), FreeRounds: rapid.IntRange(10, 40).Draw(rt, "rounds")}
		st, v := runC12(c)
		cl := []string{"free-running"}
		if st.skipped {
			cl = append(cl, "inconclusive-timeout")
		}
		ev.Record(c, c.FreeWriters >= 2, cl...)
		ev.Class("free-running-rounds", c.FreeRounds)
		if v != nil && ev.Report(v, c) {
			rt.Fatalf("%v", v)
		}
	})
	// A failed flush in between (SyncUS = -1 marks the scenario; Burst carries
	// the primary file size).
	setRapidChecks(budget(60, 120))
	rapid.Check(t, func(rt *rapid.T) {
		if pastDeadline() {
			ev.Skip()
			return
		}
		c := C12Case{Self: true, SyncUS: -1}
		c.Burst = []int{16, 16, 33, 64}[rapid.IntRange(0, 3).Draw(rt, "primsize")]
		c.Keys = genKeys(rt, Config{Primary: store.MultihashPrimary, Bits: 8}, 2, 6)
		c.SelfOps = rapid.SliceOfN(rapid.Custom(func(t *rapid.T) Op {
			return Op{K: opPut, VLen: []int{1, 20, 100}[rapid.IntRange(0, 2).Draw(t, "vlen")]}
		}), 0, 4).Draw(rt, "before")
		st, v := runC12(c)
		cl := []string{"failed-flush-in-between"}
		if st.preempt > 0 {
			cl = append(cl, "failed-flush-in-between:flush-did-fail")
		}
		if st.skipped {
			cl = append(cl, "inconclusive-timeout")
		}
		ev.Record(c, st.preempt > 0, cl...)
		if v != nil && ev.Report(v, c) {
			rt.Fatalf("%v", v)
		}
	})
	// Single writer, positive burst rates, no harness flushes.
	setRapidChecks(budget(240, 400))
	rapid.Check(t, func(rt *rapid.T) {
		if pastDeadline() {
			ev.Skip()
			return
		}
		c := C12Case{Self: true}
		c.Burst = []int{0, 1, 40, 200, 1000, 4000}[rapid.IntRange(0, 5).Draw(rt, "burst")]
		c.SyncUS = []int{0, 20, 50, 200, 1000}[weighted(rt, "syncus", []int{3, 1, 1, 1, 1})]
		c.Keys = genKeys(rt, Config{Primary: store.MultihashPrimary, Bits: 8}, 2, 8)
		c.SelfOps = rapid.SliceOfN(rapid.Custom(func(t *rapid.T) Op {
			op := Op{K: []string{opPut, opRemove}[weighted(t, "kind", []int{6, 1})]}
			op.Key = rapid.IntRange(0, 7).Draw(t, "key")
			op.VLen = []int{1, 5, 20, 60, 200}[rapid.IntRange(0, 4).Draw(t, "vlen")]
			return op
		}), 5, 60).Draw(rt, "ops")
		c.LateStart = weighted(rt, "latestart", []int{3, 1}) == 1
		st, v := runC12(c)
		cl := []string{"single-writer-self-release", fmt.Sprintf("burst-%d", c.Burst), fmt.Sprintf("periodic-interval-us-%d", c.SyncUS)}
		if st.lateStartHit {
			cl = append(cl, "single-writer-waited-before-Start")
		}
		if st.windowHit {
			cl = append(cl, "single-writer-did-wait")
		}
		if st.skipped {
			cl = append(cl, "inconclusive-timeout")
		}
		ev.Record(c, st.windowHit, cl...)
		if v != nil && ev.Report(v, c) {
			rt.Fatalf("%v", v)
		}
	})
	ev.finish(t)
}
