package checks

import (
	"bytes"
	"os"
	"strings"
	"testing"

	"pgregory.net/rapid"
)

const c07Rule = "rapid-generated histories as in C01/C02/C04 and, one in six, as in C09 (re-bucketing to another bit size, refused opens) (all primaries, small file sizes, GC cycles with budgets, close/reopen through snapshot, rescan and unusable snapshot); after every Flush, every completed GC cycle, every reopen and every Close an independent reader of the file formats (sharing no code with the repository) checks every clause of the invariant: " +
	"live bucket table = own rescan of the index files (= bucket snapshot after Close); each bucket -> complete, non-deleted, correctly tagged record in an existing file at or after the header's first file; entries sorted, pairwise prefix-free, distinct locations; each entry -> complete non-deleted primary record of the recorded size whose digest has the bucket bits and the stored prefix; no live location in .free/.free.gc; primary first-file <= referenced files; " +
	"concurrent part: " + stressRuleText + " - here only the fsck of the directory after Close is judged (collectors off / index GC on the CID primary / both collectors with keys only added); " +
	suspRuleText + " (here only the fsck clauses are judged); " + volCrashRuleText + " (here the independent fsck of the recovered image is the verdict); converted stores: legacy stores written by the encoder of C10 are opened (conversion) and the fsck runs right after the open, before anything is read, and again on the files after Close; " +
	"crash part: workloads of the C03 generator run under the crash recorder; drawn crash images (captured and torn) are restored, opened, and the same invariant is checked on the recovered store before and after a flush; non-trivial = some checked image had >=2 index files or >=2 primary files, >=1 deleted-marked record and >=1 bucket holding >=2 entries; distinct = distinct canonical JSON of the case"

type fsckAgg struct {
	runs      int
	multiFile bool
	deleted   bool
	multiEnt  bool
}

func (a *fsckAgg) add(r fsckResult) {
	a.runs++
	if r.IndexFiles >= 2 || r.PrimaryFiles >= 2 {
		a.multiFile = true
	}
	if r.DeletedIndex+r.DeletedPrimary > 0 {
		a.deleted = true
	}
	if r.MultiEntry > 0 {
		a.multiEnt = true
	}
}

func fsckOpts(agg *fsckAgg) seqOpts {
	o := seqOpts{TrackGC: true}
	o.AfterQuiet = func(r *seqRunner, step int, what string) *Violation {
		live := r.s.Index().VerifBuckets()
		tbl := make([]uint64, len(live))
		for i, p := range live {
			tbl[i] = uint64(p)
		}
		res, clause, detail := fsck(fsckInput{Dir: r.dir, Cfg: r.c.Cfg, Live: tbl})
		agg.add(res)
		if clause != "" {
			return viol("fsck|after-"+what+"|"+clause, step, "%s", detail)
		}
		return nil
	}
	o.AfterClose = func(r *seqRunner, step int) *Violation {
		res, clause, detail := fsck(fsckInput{Dir: r.dir, Cfg: r.c.Cfg, UseSnap: true})
		agg.add(res)
		if clause != "" {
			return viol("fsck|after-close|"+clause, step, "%s", detail)
		}
		return nil
	}
	return o
}

// fsckConverted opens (converts) a legacy store written by the encoder of C10
// and checks the files right after the open and after the following Close.
func fsckConverted(lc LegacyCase) (chunks int, v *Violation) {
	dir := newScratch("fsckconv")
	defer os.RemoveAll(dir)
	writeLegacy(dir, lc)
	cfg := lc.cfg()
	v = guard(-1, "fsck-converted", func() *Violation {
		s, err := openStore(dir, cfg)
		if err != nil {
			return nil // whether the conversion succeeds is C10's subject
		}
		chunks = len(numberedFiles(dir, dataBase))
		live := s.Index().VerifBuckets()
		tbl := make([]uint64, len(live))
		for i, p := range live {
			tbl[i] = uint64(p)
		}
		_, clause, detail := fsck(fsckInput{Dir: dir, Cfg: cfg, Live: tbl})
		if clause != "" {
			s.Close()
			return viol("fsck|after-upgrade|"+clause, -1, "%s", detail)
		}
		if err := s.Close(); err != nil {
			return nil
		}
		_, clause, detail = fsck(fsckInput{Dir: dir, Cfg: cfg, UseSnap: true})
		if clause != "" {
			return viol("fsck|after-upgrade-and-close|"+clause, -1, "%s", detail)
		}
		return nil
	})
	return chunks, v
}

func genC07(t *rapid.T) SeqCase {
	// One history in six comes from the C09 generator: states right after a
	// re-bucketing (and after a refused open) belong to the quantifier too.
	if weighted(t, "c09history", []int{5, 1}) == 1 {
		return genC09(t, nil)
	}
	c := genC02(t)
	return c
}

func TestC07(t *testing.T) {
	ev := newEvidence("C07", "exploration", c07Rule)
	defer ev.Write()
	run := func(c SeqCase) (SeqStats, *fsckAgg, *Violation) {
		agg := &fsckAgg{}
		st, v := runSeq(c, fsckOpts(agg))
		// Only fsck clauses belong to this property; behavioural mismatches
		// are judged by C01/C02/C04.
		if v != nil && (len(v.Signature) < 5 || v.Signature[:5] != "fsck|") {
			ev.Class("foreign-failure-not-fsck", 1)
			v = nil
		}
		return st, agg, v
	}
	if envReplay != "" && bytes.Contains(readReplayRaw(envReplay).Case, []byte(`"free_mode"`)) {
		var lc LegacyCase
		readReplay(envReplay, &lc)
		_, v := fsckConverted(lc)
		ev.Record(lc, true)
		if v != nil {
			ev.Report(v, lc)
			t.Fatalf("replay: %v", v)
		}
		return
	}
	if envReplay != "" && strings.Contains(string(readReplayRaw(envReplay).Case), "image_hex") {
		var rp RecoveryReplay
		readReplay(envReplay, &rp)
		dir := newScratch("fsckrec")
		defer os.RemoveAll(dir)
		unhexImage(rp.Image).writeTo(dir)
		s, err := openStore(dir, rp.Cfg)
		if err != nil {
			t.Skipf("image does not open: %v", err)
		}
		defer s.Close()
		live := s.Index().VerifBuckets()
		tbl := make([]uint64, len(live))
		for i, p := range live {
			tbl[i] = uint64(p)
		}
		_, clause, detail := fsck(fsckInput{Dir: dir, Cfg: rp.Cfg, Live: tbl})
		ev.Record(rp, true)
		if clause != "" {
			v := viol("fsck|after-recovery@"+crashSite(rp)+"|"+clause, -1, "%s", detail)
			ev.Report(v, rp)
			t.Fatalf("replay: %v", v)
		}
		return
	}
	if envReplay != "" && bytes.Contains(readReplayRaw(envReplay).Case, []byte(`"fg"`)) {
		var sc SuspCase
		readReplay(envReplay, &sc)
		for i := 0; i < 10; i++ {
			_, v := runSusp(sc, true)
			ev.Record(sc, true, "suspended-call-crash")
			if v != nil && strings.HasPrefix(v.Signature, "fsck|") {
				ev.Report(v, sc)
				t.Fatalf("replay: %v", v)
			}
		}
		return
	}
	if envReplay != "" && bytes.Contains(readReplayRaw(envReplay).Case, []byte(`"vc_workers"`)) {
		var c VCCase
		readReplay(envReplay, &c)
		for i := 0; i < 30; i++ {
			_, v := runVolCrash(c, true)
			ev.Record(c, true, "volume-crash")
			if v != nil {
				ev.Report(v, c)
				t.Fatalf("replay: %v", v)
			}
		}
		return
	}
	if envReplay != "" && bytes.Contains(readReplayRaw(envReplay).Case, []byte(`"workers"`)) {
		var sc StressCase
		readReplay(envReplay, &sc)
		for i := 0; i < 60; i++ {
			st, v := runStress(sc, true)
			ev.Record(sc, true, stressClasses(sc, st)...)
			if v != nil {
				ev.Report(v, sc)
				t.Fatalf("replay: %v", v)
			}
		}
		return
	}
	if envReplay != "" {
		var c SeqCase
		readReplay(envReplay, &c)
		for i := 0; i < 20; i++ {
			st, _, v := run(c)
			ev.Record(c, true, seqClasses(c, st)...)
			if v != nil {
				ev.Report(v, c)
				t.Fatalf("replay: %v", v)
			}
		}
		return
	}
	for _, f := range regressFiles("C07") {
		var c SeqCase
		readReplay(f, &c)
		st, _, v := run(c)
		ev.Record(c, true, append(seqClasses(c, st), "regression-case")...)
		if v != nil && ev.Report(v, c) {
			t.Fatalf("regression case %s: %v", f, v)
		}
	}
	fsckRuns := 0
	setRapidChecks(budget(10000, 25000))
	rapid.Check(t, func(rt *rapid.T) {
		if pastDeadline() {
			ev.Skip()
			return
		}
		c := genC07(rt)
		st, agg, v := run(c)
		fsckRuns += agg.runs
		ev.Record(c, agg.multiFile && agg.deleted && agg.multiEnt, seqClasses(c, st)...)
		if v != nil && ev.Report(v, c) {
			rt.Fatalf("%v", v)
		}
	})
	if t.Failed() {
		return
	}
	// Converted stores: the state right after the conversion of a legacy
	// store (before anything is read, since a read that trips over a bad
	// entry removes it), and the files after the following Close.
	converted := 0
	setRapidChecks(budget(250, 1000))
	rapid.Check(t, func(rt *rapid.T) {
		if pastDeadline() {
			ev.Skip()
			return
		}
		lc := genLegacy(rt)
		lc.DropTail, lc.CutMid = 0, false // entries without primary data are C10's subject
		chunks, v := fsckConverted(lc)
		converted++
		cl := []string{"converted-legacy-store"}
		if chunks >= 2 {
			cl = append(cl, "converted-legacy-store:primary-split-into-chunks")
		}
		ev.Record(lc, chunks >= 2, cl...)
		if v != nil && ev.Report(v, lc) {
			rt.Fatalf("%v", v)
		}
	})
	ev.Extra["converted_stores"] = converted
	if t.Failed() {
		return
	}
	// Crash sub-campaign: "after recovery from any crash". Workloads run under
	// the crash recorder of C03; drawn crash images are restored and opened,
	// and the invariant is checked on the recovered store (right after the
	// open, and again after a flush).
	crashStates := 0
	checkCrashState := func(c CrashCase, st crashState) *Violation {
		dir := newScratch("fsckrec")
		defer os.RemoveAll(dir)
		st.Image.writeTo(dir)
		s, err := openStore(dir, c.Seq.Cfg)
		if err != nil {
			return nil // whether the open succeeds is C03's subject
		}
		defer s.Close()
		site := crashSite(RecoveryReplay{Point: st.Point, Torn: st.Torn})
		for pass := 0; pass < 2; pass++ {
			live := s.Index().VerifBuckets()
			tbl := make([]uint64, len(live))
			for i, p := range live {
				tbl[i] = uint64(p)
			}
			_, clause, detail := fsck(fsckInput{Dir: dir, Cfg: c.Seq.Cfg, Live: tbl})
			if clause != "" {
				return viol("fsck|after-recovery@"+site+"|"+clause, -1, "%s", detail)
			}
			if err := s.Flush(); err != nil {
				return nil
			}
		}
		return nil
	}
	setRapidChecks(budget(1200, 2500))
	rapid.Check(t, func(rt *rapid.T) {
		if pastDeadline() {
			ev.Skip()
			return
		}
		c := genCrashCase(rt)
		cr := runCrashWorkload(c)
		if !cr.workloadOK || cr.total == 0 {
			ev.Class("crash:workload-failed(foreign)", 1)
			return
		}
		for j, p := range c.Picks {
			var st crashState
			if j%2 == 0 || len(cr.specs) == 0 {
				st = cr.state(p % len(cr.rec.snaps))
			} else {
				spec := cr.specs[p%len(cr.specs)]
				st = cr.rec.tornState(spec, (p/7919)%spec.count())
			}
			crashStates++
			v := checkCrashState(c, st)
			ev.Record(struct {
				H string
			}{st.Image.hash()}, !st.Quiet && cr.stats.removedFlushedSeen(), "crash:recovered-image")
			if v != nil {
				rp := buildReplay(c, st, cr.models)
				if ev.Report(v, rp) {
					rt.Fatalf("%v", v)
				}
			}
		}
	})
	ev.Extra["fsck_runs"] = fsckRuns
	ev.Extra["crash_images_checked"] = crashStates
	// Schedules: the quiescent state after free-running concurrent use.
	if !t.Failed() {
		runStressCampaign(t, ev, []int{stressFlush, stressIndexGC, stressAppendOnly, stressFlush, stressIndexGC, stressAppendOnly, stressRelocation}, budget(2400, 5000), true)
	}
	// Crash images taken while a call is suspended between its sub-steps.
	if !t.Failed() {
		runSuspCampaign(t, ev, budget(3200, 6000), true, func(v *Violation) bool { return strings.HasPrefix(v.Signature, "fsck|") })
	}
	// Crash images taken right after a Flush call returned under load.
	if !t.Failed() {
		runVolCrashCampaign(t, ev, budget(160, 800), true)
	}
	ev.finish(t)
}
