package checks

import (
	"bytes"
	"fmt"
	"os"
	"testing"
	"time"

	"github.com/ipld/go-storethehash/store"

	"pgregory.net/rapid"
)

// Crash while a call is suspended between its sub-steps. The crash campaigns
// of C03/C07 run sequential workloads, so a flush never completes *inside*
// another call. Here one foreground call (an overwrite, a Put of a new key or
// a Remove) is parked by the cooperative scheduler at a drawn point between
// its non-atomic sub-steps, a second task writes another key and runs a
// complete Flush, and at that moment - every task parked or finished, nothing
// in flight - the directory is copied: the image of a process crash at that
// instant. The image must recover like any other.

// SuspCase is one such situation.
type SuspCase struct {
	Cfg    Config    `json:"cfg"`
	Keys   []KeySpec `json:"keys"`
	Prefix []Op      `json:"prefix"` // sequential: put / rm / flush
	Fg     Op        `json:"fg"`     // the suspended call
	Point  string    `json:"point"`
	N      int       `json:"n"`
	Other  []Op      `json:"other"` // second task: writes on other keys, then Flush
	GCLow  int       `json:"gc_low"`
	// Shape 1: a GC cycle is parked at PointGC inside the cycle, then a Flush
	// (with the acknowledged but unflushed writes of Unflushed pending) runs
	// up to PointFlush, then the GC cycle completes, and the image is taken
	// with the flush still suspended.
	Shape      int    `json:"shape,omitempty"`
	Unflushed  []Op   `json:"unflushed,omitempty"`
	GC         Op     `json:"gc,omitempty"`
	PointGC    string `json:"point_gc,omitempty"`
	NGC        int    `json:"n_gc,omitempty"`
	PointFlush string `json:"point_flush,omitempty"`
	// Shape 3: like shape 2, with a second Flush call: the first flush is
	// suspended at PointFlush, a second Flush call runs as far as it gets,
	// the first flush moves on to PointFlush2, the writer's calls complete,
	// then everything completes.
	PointFlush2 string `json:"point_flush2,omitempty"`
}

var suspGCPointsI = []string{"igc.file", "igc.reap.busyChecked", "igc.reap.mark", "igc.reap.truncate", "igc.free.scanned", "igc.header", "igc.unlink"}
var suspGCPointsP = []string{"pgc.fl.handed", "pgc.freelistDone", "pgc.file", "pgc.reap.truncate", "pgc.reap.relocate", "pgc.reap.relocated", "pgc.header", "pgc.unlink"}
var suspFlushPoints = []string{"mh.flush.swapped", "mh.flush.write", "mh.flush.written", "commit.primaryFlushed", "index.flush.swapped", "index.roll.create", "index.flush.write", "index.flush.written", "commit.indexFlushed", "fl.flush.swapped"}

func genSusp2(t *rapid.T) SuspCase {
	c := SuspCase{Shape: 1}
	c.Cfg = genConfig(t, cfgGenOpts{smallBits: true, smallFiles: true})
	if c.Cfg.Bits > 12 {
		c.Cfg.Bits = 8
	}
	c.Cfg.Immutable = false
	if weighted(t, "roomy", []int{1, 1}) == 1 {
		c.Cfg.IdxSize = []uint32{33, 40, 48, 64, 100}[rapid.IntRange(0, 4).Draw(t, "roomyidx")]
		c.Cfg.PrimSize = []uint32{33, 48, 64, 100, 256}[rapid.IntRange(0, 4).Draw(t, "roomyprim")]
	}
	c.Keys = genKeys(t, c.Cfg, 3, 8)
	pm := genMix(t, []string{opPut, opRemove, opFlush}, []int{6, 1, 4})
	c.Prefix = genOps(t, pm, len(c.Keys), c.Cfg, 4, 20, false)
	// Two more flushed writes, so that most records of the prefix sit in
	// files that are no longer the current ones (GC only works on those).
	for j := 0; j < 2; j++ {
		c.Prefix = append(c.Prefix, Op{K: opPut, Key: rapid.IntRange(0, len(c.Keys)-1).Draw(t, "pushkey"), VLen: 2 + j}, Op{K: opFlush})
	}
	nu := rapid.IntRange(1, 4).Draw(t, "unflushed")
	for i := 0; i < nu; i++ {
		c.Unflushed = append(c.Unflushed, Op{K: []string{opPut, opRemove}[weighted(t, "ukind", []int{5, 1})], Key: rapid.IntRange(0, len(c.Keys)-1).Draw(t, "ukey"), VLen: 5 + i})
	}
	if c.Cfg.Primary == store.MultihashPrimary && weighted(t, "gckind", []int{3, 1}) == 1 {
		c.GC = Op{K: opPGC, A: []int{0, 50, 100}[rapid.IntRange(0, 2).Draw(t, "lowuse")]}
		c.PointGC = suspGCPointsP[weighted(t, "gcpoint", []int{2, 2, 6, 1, 2, 1, 1, 1})]
	} else {
		c.GC = Op{K: opIGC, A: rapid.IntRange(0, 1).Draw(t, "scanfree")}
		// Mostly parked before a file is processed: what the cycle decides
		// about that file is then decided behind the suspended flush.
		c.PointGC = suspGCPointsI[weighted(t, "gcpoint", []int{8, 2, 2, 1, 2, 1, 1})]
	}
	c.NGC = 1 + weighted(t, "ngc", []int{5, 3, 1, 1})
	c.PointFlush = suspFlushPoints[weighted(t, "flpoint", []int{1, 2, 2, 1, 2, 1, 8, 3, 1, 1})]
	c.GCLow = []int{0, 50, 100}[rapid.IntRange(0, 2).Draw(t, "gclow")]
	return c
}

var suspPoints = []string{"put.indexGot", "put.primaryChecked", "put.primaryPut", "put.indexUpdated", "remove.indexGot", "remove.primaryChecked", "remove.indexRemoved"}

const suspRuleText = "Suspended-call crash sub-campaign: after a generated sequential prefix one foreground call (overwrite / Put of a new key / Remove) is parked by the cooperative scheduler at a drawn point between its sub-steps (index lookup, primary check, primary put, index update / removal, freelist put), a second task writes other keys and completes a Flush, and the directory is copied while every task is parked or finished (a process crash at that instant); the image is opened and must satisfy the independent fsck, read every other key exactly as flushed and the suspended call's key as its old or its new value, and keep doing so after a primary GC cycle, an index GC cycle and a flush; second shape (two preemptions): a GC cycle is parked at a drawn point inside the cycle, a Flush with acknowledged unflushed writes pending runs up to a drawn point inside the flush pipeline, the GC cycle completes, and the image is taken with the flush still suspended - every key must then read one of the states it had since the last completed flush; third shape: a Flush is suspended at a drawn point, a writer task completes 1-3 calls, the flush completes, crash before the next flush; fourth shape: two overlapping Flush calls (the first suspended at a drawn point while the second runs as far as it gets, then at a later point while the writer's calls complete), then both complete and the process dies - what was acknowledged before the first flush began must be durable, the calls inside may or may not be, nothing else may be read; fifth shape: a flush is suspended behind its pool swaps, a second Flush call is made, and if it returns while the first is still suspended the image is taken at that moment (a crash right after Flush returned nil): everything acknowledged before that call must be in it"

func genSusp(t *rapid.T) SuspCase {
	var c SuspCase
	c.Cfg = genConfig(t, cfgGenOpts{smallBits: true, smallFiles: true})
	if c.Cfg.Bits > 12 {
		c.Cfg.Bits = 8
	}
	c.Cfg.Immutable = false
	c.Keys = genKeys(t, c.Cfg, 3, 8)
	c.Keys = extendKeys(c.Keys, 3)
	pm := genMix(t, []string{opPut, opRemove, opFlush}, []int{6, 1, 3})
	c.Prefix = genOps(t, pm, len(c.Keys), c.Cfg, 2, 14, false)
	c.Fg = Op{K: []string{opPut, opRemove}[weighted(t, "fgkind", []int{4, 1})], Key: rapid.IntRange(0, len(c.Keys)-1).Draw(t, "fgkey"), VLen: []int{0, 4, 9, 30}[rapid.IntRange(0, 3).Draw(t, "fgvlen")]}
	c.Point = suspPoints[rapid.IntRange(0, len(suspPoints)-1).Draw(t, "point")]
	if c.Fg.K == opRemove && weighted(t, "rmpoint", []int{1, 3}) == 1 {
		c.Point = suspPoints[4+rapid.IntRange(0, 2).Draw(t, "rmp")]
	} else if c.Fg.K == opPut && weighted(t, "putpoint", []int{1, 3}) == 1 {
		c.Point = suspPoints[rapid.IntRange(0, 3).Draw(t, "putp")]
	}
	c.N = 1
	nOther := rapid.IntRange(0, 2).Draw(t, "nother")
	if len(c.Keys) < 2 {
		nOther = 0 // the second task must never write the suspended call's key
	}
	for i := 0; i < nOther; i++ {
		k := rapid.IntRange(0, len(c.Keys)-1).Draw(t, "okey")
		if k == c.Fg.Key {
			k = (k + 1) % len(c.Keys)
		}
		c.Other = append(c.Other, Op{K: []string{opPut, opRemove}[weighted(t, "okind", []int{4, 1})], Key: k, VLen: 6 + i})
	}
	c.Other = append(c.Other, Op{K: opFlush})
	c.GCLow = []int{0, 50, 100}[rapid.IntRange(0, 2).Draw(t, "gclow")]
	return c
}

type suspStats struct {
	snapped   bool
	overwrite bool // the suspended call supersedes a flushed value
}

// snapWhenAlone wraps the single-preemption policy: when the preempted task is
// chosen again while it sits at the preemption point, every other task has
// finished (or waits for a lock), so the directory is quiescent.
type snapWhenAlone struct {
	inner singlePreemption
	snap  func()
	done  *bool
}

func (p snapWhenAlone) pick(c []*schedTask, step int) *schedTask {
	t := p.inner.pick(c, step)
	if !*p.done && t.id == p.inner.a && t.point == p.inner.point && t.hits[p.inner.point] >= p.inner.n {
		*p.done = true
		p.snap()
	}
	return t
}

// genSusp3: shape 2 - a Flush is suspended at a drawn point inside the flush
// pipeline, a writer task completes one to three calls, the flush resumes and
// completes, and the process dies before the next flush.
func genSusp3(t *rapid.T) SuspCase {
	c := SuspCase{Shape: 2}
	c.Cfg = genConfig(t, cfgGenOpts{smallBits: true, smallFiles: true})
	if c.Cfg.Bits > 12 {
		c.Cfg.Bits = 8
	}
	c.Cfg.Immutable = false
	c.Keys = genKeys(t, c.Cfg, 3, 8)
	pm := genMix(t, []string{opPut, opRemove, opFlush}, []int{6, 1, 3})
	c.Prefix = genOps(t, pm, len(c.Keys), c.Cfg, 2, 14, false)
	nu := rapid.IntRange(0, 3).Draw(t, "unflushed")
	for i := 0; i < nu; i++ {
		c.Unflushed = append(c.Unflushed, Op{K: []string{opPut, opRemove}[weighted(t, "ukind", []int{5, 1})], Key: rapid.IntRange(0, len(c.Keys)-1).Draw(t, "ukey"), VLen: 5 + i})
	}
	nw := rapid.IntRange(1, 3).Draw(t, "nwrites")
	for i := 0; i < nw; i++ {
		c.Other = append(c.Other, Op{K: []string{opPut, opRemove}[weighted(t, "wkind", []int{5, 1})], Key: rapid.IntRange(0, len(c.Keys)-1).Draw(t, "wkey"), VLen: 11 + i})
	}
	c.PointFlush = append([]string{"flush.stamped", "commit.marked"}, suspFlushPoints...)[rapid.IntRange(0, len(suspFlushPoints)+1).Draw(t, "flpoint")]
	c.GCLow = []int{0, 50, 100}[rapid.IntRange(0, 2).Draw(t, "gclow")]
	return c
}

// genSusp5: shape 4 - a Flush call that returns while another flush is still
// writing. The first flush is suspended at a drawn point behind its pool
// swaps; a second Flush call is made and, if it RETURNS while the first is
// still suspended, the directory is copied at that moment: a process crash
// right after a Flush call returned nil. Everything acknowledged before that
// call began must be in the image.
func genSusp5(t *rapid.T) SuspCase {
	c := genSusp3(t)
	c.Shape = 4
	c.Other = nil
	// Mostly puts of keys that are not stored yet (nothing superseded, so
	// that no freelist work is pending either).
	if weighted(t, "freshonly", []int{1, 3}) == 1 {
		c.Prefix = []Op{{K: opPut, Key: 0, VLen: 3}, {K: opFlush}}
		c.Unflushed = nil
		for k := 1; k < len(c.Keys) && k <= 3; k++ {
			c.Unflushed = append(c.Unflushed, Op{K: opPut, Key: k, VLen: 4 + k})
		}
	}
	if len(c.Unflushed) == 0 {
		c.Unflushed = []Op{{K: opPut, Key: len(c.Keys) - 1, VLen: 5}}
	}
	pts := []string{"mh.flush.swapped", "mh.flush.write", "mh.flush.written", "commit.primaryFlushed", "index.flush.swapped", "index.roll.create", "index.flush.write", "index.flush.written", "commit.indexFlushed", "fl.flush.swapped", "commit.freelistFlushed"}
	c.PointFlush = pts[weighted(t, "flpoint4", []int{1, 1, 1, 1, 4, 1, 4, 3, 2, 1, 1})]
	return c
}

// genSusp4: shape 3 - two overlapping Flush calls and a writer between them.
func genSusp4(t *rapid.T) SuspCase {
	c := genSusp3(t)
	c.Shape = 3
	if len(c.Unflushed) == 0 {
		c.Unflushed = []Op{{K: opPut, Key: rapid.IntRange(0, len(c.Keys)-1).Draw(t, "ukey0"), VLen: 5}}
	}
	// The first stop mostly where the first flush holds no lock (the second
	// call can then run to its end), the second behind the index flush.
	pts := append([]string{"flush.stamped"}, suspFlushPoints...)
	i := []int{4, rapid.IntRange(0, len(pts)-2).Draw(t, "flpoint1")}[weighted(t, "fl1", []int{3, 1})]
	j := []int{9, rapid.IntRange(i+1, len(pts)-1).Draw(t, "flpoint2")}[weighted(t, "fl2", []int{2, 1})]
	if j <= i {
		j = i + 1
	}
	c.PointFlush, c.PointFlush2 = pts[i], pts[j]
	return c
}

// stagedPolicy runs one task at a time through a list of stages: task i up to
// a point (or to its end, or until it waits for a lock).
type stage struct {
	task  int
	point string
}

type stagedPolicy struct {
	stages []stage
	i      int
}

func (p *stagedPolicy) pick(c []*schedTask, step int) *schedTask {
	for p.i < len(p.stages) {
		sg := p.stages[p.i]
		var t *schedTask
		for _, x := range c {
			if x.id == sg.task {
				t = x
			}
		}
		if t == nil || (sg.point != "" && t.point == sg.point) {
			p.i++ // finished, waiting for a lock, or arrived
			continue
		}
		return t
	}
	return c[0]
}

type suspState struct {
	val     []byte
	present bool
}

// snapWhenGCDone wraps the double-preemption policy of shape 1.
type snapWhenGCDone struct {
	inner doublePreemption
	ready func() bool
	snap  func()
	done  *bool
}

func (p snapWhenGCDone) pick(c []*schedTask, step int) *schedTask {
	t := p.inner.pick(c, step)
	if !*p.done && t.id == p.inner.b && t.point == p.inner.pb && p.ready() {
		*p.done = true
		p.snap()
	}
	return t
}

// runSusp2 runs shape 1 (see SuspCase.Shape).
func runSusp2(c SuspCase, withFsck bool) (st suspStats, v *Violation) {
	dir := newScratch("susp2")
	defer os.RemoveAll(dir)
	s, err := openStore(dir, c.Cfg)
	if err != nil {
		panic(infraError{err})
	}
	enc := func(k int) []byte { return c.Keys[k%len(c.Keys)].Encode(c.Cfg.Primary, false) }
	model := map[int][]byte{}
	apply := func(i int, op Op) error {
		k := op.Key % len(c.Keys)
		switch op.K {
		case opPut, opRePut:
			val := valueFor(i, op.VLen, false)
			if err := s.Put(enc(k), val); err != nil {
				return err
			}
			model[k] = val
		case opRemove:
			if _, err := s.Remove(enc(k)); err != nil {
				return err
			}
			delete(model, k)
		case opFlush:
			return s.Flush()
		}
		return nil
	}
	for i, op := range append(append([]Op{}, c.Prefix...), Op{K: opFlush}) {
		if err := apply(i, op); err != nil {
			closeQuietly(s)
			return st, nil
		}
	}
	// allowed[k]: every state the key had from the last completed flush on.
	type state = suspState
	allowed := map[int][]state{}
	for k := range c.Keys {
		v, p := model[k]
		allowed[k] = []state{{v, p}}
	}
	for i, op := range c.Unflushed {
		if err := apply(7000+i, op); err != nil {
			closeQuietly(s)
			return st, nil
		}
		k := op.Key % len(c.Keys)
		v, p := model[k]
		allowed[k] = append(allowed[k], state{v, p})
		if len(allowed[k]) > 1 {
			st.overwrite = true
		}
	}
	var img dirImage
	snapped := false
	if c.Shape == 4 {
		// What was acknowledged before the second Flush call began (all of
		// Unflushed) must be durable once that call has returned.
		for k := range c.Keys {
			allowed[k] = allowed[k][len(allowed[k])-1:]
		}
		sch := newScheduler()
		sch.install()
		sch.spawn("flush", func(yield func(string)) { s.Flush() })
		var err2 error
		returned := false
		sch.spawn("flush2", func(yield func(string)) {
			err2 = s.Flush()
			returned = true
		})
		done := false
		pol := snapWhenAlone{inner: singlePreemption{a: 0, point: c.PointFlush, n: 1, order: []int{1}}, done: &done, snap: func() {
			// The first flush is about to be resumed at its point: the second
			// call has either returned or waits for a lock.
			if returned && err2 == nil && sch.tasks[1].state == tsDone && sch.lateArrivals == 0 {
				img = readDirImage(dir)
			}
		}}
		sch.run(pol, 6000)
		sch.release()
		sch.join(20 * time.Second)
		sch.uninstall()
		closeQuietly(s)
		if img == nil {
			return st, nil
		}
		st.snapped = true
		st.overwrite = true
		return suspRecover(c, st, img, allowed, "flush-returned-inside-another-flush@"+c.PointFlush, withFsck, enc)
	}
	if c.Shape == 2 || c.Shape == 3 {
		// The state when the flush starts replaces everything before it: the
		// flush completes before the crash, so what was acknowledged before it
		// began must be durable.
		for k := range c.Keys {
			allowed[k] = allowed[k][len(allowed[k])-1:]
		}
		sch := newScheduler()
		sch.install()
		sch.spawn("flush", func(yield func(string)) { s.Flush() })
		werr := false
		sch.spawn("writer", func(yield func(string)) {
			for i, op := range c.Other {
				if err := apply(8000+i, op); err != nil {
					werr = true
					return
				}
				k := op.Key % len(c.Keys)
				v, p := model[k]
				allowed[k] = append(allowed[k], state{v, p})
				st.overwrite = true
			}
		})
		var pol policy = singlePreemption{a: 0, point: c.PointFlush, n: 1, order: []int{1}}
		if c.Shape == 3 {
			sch.spawn("flush2", func(yield func(string)) { s.Flush() })
			pol = &stagedPolicy{stages: []stage{{0, c.PointFlush}, {2, ""}, {0, c.PointFlush2}, {1, ""}, {0, ""}, {2, ""}}}
		}
		allDone := sch.run(pol, 6000)
		parkedThere := sch.tasks[0].hits[c.PointFlush] > 0
		if c.Shape == 3 {
			parkedThere = parkedThere && sch.tasks[0].hits[c.PointFlush2] > 0
		}
		late := sch.lateArrivals
		sch.release()
		sch.join(20 * time.Second)
		sch.uninstall()
		if allDone && parkedThere && !werr && late == 0 {
			img = readDirImage(dir)
		}
		closeQuietly(s)
		if img == nil {
			return st, nil
		}
		st.snapped = true
		if c.Shape == 3 {
			return suspRecover(c, st, img, allowed, "call-inside-overlapping-flushes@"+c.PointFlush+"+"+c.PointFlush2, withFsck, enc)
		}
		return suspRecover(c, st, img, allowed, "call-inside-suspended-flush@"+c.PointFlush, withFsck, enc)
	}
	sch := newScheduler()
	sch.install()
	sch.spawn("gc", func(yield func(string)) {
		if c.GC.K == opPGC {
			if mp := mhPrimaryOf(s); mp != nil {
				mp.GC(bg, int64(c.GC.A))
			}
		} else {
			s.Index().VerifGC(bg, c.GC.A == 1)
		}
	})
	sch.spawn("flush", func(yield func(string)) { s.Flush() })
	pol := snapWhenGCDone{inner: doublePreemption{a: 0, b: 1, pa: c.PointGC, pb: c.PointFlush, na: max(c.NGC, 1), nb: 1, phase: new(int)}, done: &snapped,
		ready: func() bool {
			sch.mu.Lock()
			defer sch.mu.Unlock()
			return len(sch.tasks) > 1 && sch.tasks[0].state == tsDone
		},
		snap: func() {
			if sch.lateArrivals == 0 {
				img = readDirImage(dir)
			}
		}}
	sch.run(pol, 6000)
	sch.release()
	sch.join(20 * time.Second)
	sch.uninstall()
	closeQuietly(s)
	if img == nil {
		return st, nil
	}
	st.snapped = true
	return suspRecover(c, st, img, allowed, "gc-then-flush-suspended@"+c.PointFlush, withFsck, enc)
}

// suspRecover restores an image of shapes 1 and 2 and checks it: every key must
// read one of its allowed states, and keep reading the same after a flush, a
// primary GC cycle, an index GC cycle and another flush.
func suspRecover(c SuspCase, st suspStats, img dirImage, allowedIn interface{}, site string, withFsck bool, enc func(int) []byte) (suspStats, *Violation) {
	type state = suspState
	allowed := allowedIn.(map[int][]suspState)
	var s *store.Store
	var v *Violation

	dir2 := newScratch("susprec")
	defer os.RemoveAll(dir2)
	img.writeTo(dir2)
	var s2 = s
	v = guard(0, "suspended-recovery-open", func() *Violation {
		var err error
		s2, err = openStore(dir2, c.Cfg)
		if err != nil {
			return viol("recovery-open-fails|"+site+"|"+errClass(err), 0, "OpenStore on the image failed: %v", err)
		}
		return nil
	})
	if v != nil {
		return st, v
	}
	defer closeQuietly(s2)
	fsckNow := func(when string) *Violation {
		if !withFsck {
			return nil
		}
		live := s2.Index().VerifBuckets()
		tbl := make([]uint64, len(live))
		for i, p := range live {
			tbl[i] = uint64(p)
		}
		if _, clause, detail := fsck(fsckInput{Dir: dir2, Cfg: c.Cfg, Live: tbl}); clause != "" {
			return viol("fsck|"+when+"-"+site+"|"+clause, 0, "%s", detail)
		}
		return nil
	}
	first := map[int]state{}
	readAll := func(when string) *Violation {
		for k := range c.Keys {
			got, found, err := s2.Get(enc(k))
			if err != nil {
				return viol("recovery-read-error|"+site+"|"+when+":"+errClass(err), 0, "Get(key %d) %s returned %v", k, when, err)
			}
			if when == "after-recovery" {
				ok := false
				for _, a := range allowed[k] {
					if a.present == found && (!found || bytes.Equal(a.val, got)) {
						ok = true
					}
				}
				if !ok {
					sym := "stale-value"
					if !found {
						sym = "absent-but-durable"
					}
					if c.Shape == 4 {
						return viol("recovery-"+sym+"|"+site+"|", 0, "key %d reads (%s, found=%v) after a crash right after a Flush call returned nil; that call was made while another flush was suspended at %s and returned without waiting for it, although the key's last acknowledged state before the call (%d state(s) allowed) was not on disk yet", k, shortBytes(got), found, c.PointFlush, len(allowed[k]))
					}
					if c.Shape == 3 {
						return viol("recovery-"+sym+"|"+site+"|", 0, "key %d reads (%s, found=%v) after a crash that followed two overlapping Flush calls (the first suspended at %s while the second ran, then at %s while %d write call(s) completed; then both completed); the key had %d state(s) from the start of the first flush on, none of which this is", k, shortBytes(got), found, c.PointFlush, c.PointFlush2, len(c.Other), len(allowed[k]))
					}
					if c.Shape == 2 {
						return viol("recovery-"+sym+"|"+site+"|", 0, "key %d reads (%s, found=%v) after a crash that followed a flush which had been suspended at %s while %d write call(s) completed and which then completed itself; the key had %d state(s) from the start of that flush on, none of which this is", k, shortBytes(got), found, c.PointFlush, len(c.Other), len(allowed[k]))
					}
					return viol("recovery-"+sym+"|"+site+"|gc@"+c.PointGC, 0, "key %d reads (%s, found=%v) after a crash with a flush suspended at %s and a %s cycle (parked at %s, then completed) behind it; it had %d state(s) since the last completed flush, none of which this is", k, shortBytes(got), found, c.PointFlush, c.GC.K, c.PointGC, len(allowed[k]))
				}
				first[k] = state{got, found}
			} else if f := first[k]; f.present != found || !bytes.Equal(f.val, got) {
				return viol("post-recovery|"+site+"|key-changed-"+when, 0, "key %d read (%s, found=%v) right after recovery and reads (%s, found=%v) %s", k, shortBytes(f.val), f.present, shortBytes(got), found, when)
			}
		}
		return nil
	}
	v = guard(0, "suspended-recovery", func() *Violation {
		if v := fsckNow("after-recovery"); v != nil {
			return v
		}
		if v := readAll("after-recovery"); v != nil {
			return v
		}
		if err := s2.Flush(); err != nil {
			return viol("flush-error|"+site+"|"+errClass(err), 0, "Flush on the recovered store: %v", err)
		}
		if mp := mhPrimaryOf(s2); mp != nil {
			mp.GC(bg, int64(c.GCLow))
		}
		s2.Index().VerifGC(bg, true)
		if err := s2.Flush(); err != nil {
			return viol("flush-error|"+site+"|"+errClass(err), 0, "Flush after GC on the recovered store: %v", err)
		}
		if v := readAll("after-gc"); v != nil {
			return v
		}
		return fsckNow("after-gc")
	})
	return st, v
}

func runSusp(c SuspCase, withFsck bool) (st suspStats, v *Violation) {
	if c.Shape >= 1 && c.Shape <= 4 {
		return runSusp2(c, withFsck)
	}
	dir := newScratch("susp")
	defer os.RemoveAll(dir)
	s, err := openStore(dir, c.Cfg)
	if err != nil {
		panic(infraError{err})
	}
	model := map[int][]byte{}
	enc := func(k int) []byte { return c.Keys[k%len(c.Keys)].Encode(c.Cfg.Primary, false) }
	apply := func(i int, op Op) error {
		k := op.Key % len(c.Keys)
		switch op.K {
		case opPut, opRePut:
			val := valueFor(i, op.VLen, false)
			if err := s.Put(enc(k), val); err != nil {
				return err
			}
			model[k] = val
		case opRemove:
			if _, err := s.Remove(enc(k)); err != nil {
				return err
			}
			delete(model, k)
		case opFlush:
			return s.Flush()
		}
		return nil
	}
	for i, op := range c.Prefix {
		if op.K != opPut && op.K != opRePut && op.K != opRemove && op.K != opFlush {
			continue
		}
		if err := apply(i, op); err != nil {
			closeQuietly(s)
			return st, nil // a failing prefix is the subject of C01
		}
	}
	fgKey := c.Fg.Key % len(c.Keys)
	oldVal, oldPresent := model[fgKey]
	newVal := valueFor(5000, c.Fg.VLen, false)
	st.overwrite = oldPresent
	var img dirImage
	snapped := false
	sch := newScheduler()
	sch.install()
	sch.spawn("fg", func(yield func(string)) {
		if c.Fg.K == opRemove {
			s.Remove(enc(fgKey))
		} else {
			s.Put(enc(fgKey), newVal)
		}
	})
	otherErr := false
	sch.spawn("other", func(yield func(string)) {
		for i, op := range c.Other {
			if err := apply(6000+i, op); err != nil {
				otherErr = true
				return
			}
		}
	})
	pol := snapWhenAlone{inner: singlePreemption{a: 0, point: c.Point, n: max(c.N, 1), order: []int{1}}, done: &snapped, snap: func() {
		// Only a directory in which the second task really finished counts.
		sch.mu.Lock()
		otherDone := len(sch.tasks) > 1 && sch.tasks[1].state == tsDone
		sch.mu.Unlock()
		// Only strictly serialized runs count here (one task at a time): a
		// call that really overlaps a flush is the subject of shape 2.
		if otherDone && !otherErr && sch.lateArrivals == 0 {
			img = readDirImage(dir)
		}
	}}
	sch.run(pol, 4000)
	sch.release()
	sch.join(20 * time.Second)
	sch.uninstall()
	closeQuietly(s)
	if img == nil {
		return st, nil // the call never reached the point, or the second task could not finish
	}
	st.snapped = true
	site := "suspended@" + c.Point

	// ---- recover the image
	dir2 := newScratch("susprec")
	defer os.RemoveAll(dir2)
	img.writeTo(dir2)
	var s2 = s
	v = guard(0, "suspended-recovery-open", func() *Violation {
		var err error
		s2, err = openStore(dir2, c.Cfg)
		if err != nil {
			return viol("recovery-open-fails|"+site+"|"+errClass(err), 0, "OpenStore on the image failed: %v", err)
		}
		return nil
	})
	if v != nil {
		return st, v
	}
	defer closeQuietly(s2)
	fsckNow := func(when string) *Violation {
		if !withFsck {
			return nil
		}
		live := s2.Index().VerifBuckets()
		tbl := make([]uint64, len(live))
		for i, p := range live {
			tbl[i] = uint64(p)
		}
		if _, clause, detail := fsck(fsckInput{Dir: dir2, Cfg: c.Cfg, Live: tbl}); clause != "" {
			return viol("fsck|"+when+"-"+site+"|"+clause, 0, "%s", detail)
		}
		return nil
	}
	var fgSeen []byte
	fgFound := false
	readAll := func(when string) *Violation {
		for k := range c.Keys {
			got, found, err := s2.Get(enc(k))
			if err != nil {
				return viol("recovery-read-error|"+site+"|"+when+":"+errClass(err), 0, "Get(key %d) %s returned %v", k, when, err)
			}
			if k == fgKey {
				okOld := found == oldPresent && (!found || bytes.Equal(got, oldVal))
				okNew := (c.Fg.K == opRemove && !found) || (c.Fg.K != opRemove && found && bytes.Equal(got, newVal))
				if when == "after-recovery" {
					if !okOld && !okNew {
						return viol("recovery-stale-value|"+site+"|suspended-key", 0, "key %d of the suspended %s reads (%s, found=%v); it had (%s, present=%v) before the call and the call would make it (%s)", k, c.Fg.K, shortBytes(got), found, shortBytes(oldVal), oldPresent, shortBytes(newVal))
					}
					fgSeen, fgFound = got, found
				} else if found != fgFound || !bytes.Equal(got, fgSeen) {
					return viol("post-recovery|"+site+"|suspended-key-changed-"+when, 0, "key %d of the suspended %s read (%s, found=%v) right after recovery and reads (%s, found=%v) %s", k, c.Fg.K, shortBytes(fgSeen), fgFound, shortBytes(got), found, when)
				}
				continue
			}
			want, present := model[k]
			switch {
			case present && !found:
				return viol("recovery-absent-but-durable|"+site+"|"+when, 0, "key %d was flushed as %s while the other call was suspended, but reads as absent %s", k, shortBytes(want), when)
			case !present && found:
				return viol("recovery-removed-key-back|"+site+"|"+when, 0, "key %d was absent at the flush but reads %s %s", k, shortBytes(got), when)
			case present && !bytes.Equal(got, want):
				return viol("recovery-stale-value|"+site+"|"+when, 0, "key %d reads %s %s, flushed value is %s", k, shortBytes(got), when, shortBytes(want))
			}
		}
		return nil
	}
	v = guard(0, "suspended-recovery", func() *Violation {
		if v := fsckNow("after-recovery"); v != nil {
			return v
		}
		if v := readAll("after-recovery"); v != nil {
			return v
		}
		if err := s2.Flush(); err != nil {
			return viol("flush-error|"+site+"|"+errClass(err), 0, "Flush on the recovered store: %v", err)
		}
		if mp := mhPrimaryOf(s2); mp != nil {
			mp.GC(bg, int64(c.GCLow)) // error returns of cycles are not violations
		}
		s2.Index().VerifGC(bg, true)
		if err := s2.Flush(); err != nil {
			return viol("flush-error|"+site+"|"+errClass(err), 0, "Flush after GC on the recovered store: %v", err)
		}
		if v := readAll("after-gc"); v != nil {
			return v
		}
		return fsckNow("after-gc")
	})
	return st, v
}

// runSuspCampaign runs the sub-campaign; keep decides which violations belong
// to the calling check.
func runSuspCampaign(t *testing.T, ev *Evidence, n int, withFsck bool, keep func(*Violation) bool) {
	setRapidChecks(n)
	rapid.Check(t, func(rt *rapid.T) {
		if pastDeadline() {
			ev.Skip()
			return
		}
		var c SuspCase
		switch weighted(rt, "shape", []int{2, 2, 1, 1, 1}) {
		case 4:
			c = genSusp5(rt)
		case 1:
			c = genSusp2(rt)
		case 2:
			c = genSusp3(rt)
		case 3:
			c = genSusp4(rt)
		default:
			c = genSusp(rt)
		}
		st, v := runSusp(c, withFsck)
		cl := []string{"suspended-call-crash"}
		if st.snapped && c.Shape == 1 {
			cl = append(cl, "suspended-flush-behind-gc:image-taken@"+c.PointFlush)
		} else if st.snapped && c.Shape == 2 {
			cl = append(cl, "call-inside-suspended-flush:image-taken@"+c.PointFlush)
		} else if st.snapped && c.Shape == 4 {
			cl = append(cl, "flush-returned-inside-another-flush:image-taken@"+c.PointFlush)
		} else if st.snapped && c.Shape == 3 {
			cl = append(cl, "call-inside-overlapping-flushes:image-taken@"+c.PointFlush+"+"+c.PointFlush2)
		} else if st.snapped {
			cl = append(cl, "suspended-call-crash:image-taken@"+c.Point)
		}
		ev.Record(c, st.snapped && st.overwrite, cl...)
		if v != nil && !keep(v) {
			ev.Class("suspended-call-crash:foreign-failure", 1)
			v = nil
		}
		if v != nil && ev.Report(v, c) {
			rt.Fatalf("%v", v)
		}
	})
}

var _ = fmt.Sprintf
