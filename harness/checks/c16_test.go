package checks

import (
	"fmt"
	"io"
	"os"
	"path/filepath"
	"regexp"
	"sort"
	"strings"
	"sync"
	"testing"
	"time"

	"github.com/ipld/go-storethehash/store"
	"github.com/ipld/go-storethehash/store/vhook"
	"pgregory.net/rapid"
)

// RaceCase is a generated concurrent program.
type RaceCase struct {
	Cfg     Config    `json:"cfg"`
	Keys    []KeySpec `json:"keys"`
	Workers [][]Op    `json:"workers"`
	Rounds  int       `json:"rounds"`
	SyncUS  int       `json:"sync_us"`
	GCUS    int       `json:"gc_us"`
	// BackPressure: BurstRate(0) and a pinned tiny flush rate, so that every
	// write takes the waiting path of the rate limiter.
	BackPressure bool `json:"back_pressure,omitempty"`
	// Fault: an environment fault that makes a flush of the background flusher
	// fail while the workers run, so that the store's error paths (sticky
	// error) execute concurrently too. 1: a stray file with the name of the
	// next primary file appears; 2: a stray directory with the name of the
	// next index file appears. FaultUS: when, after the workers started.
	Fault   int `json:"fault,omitempty"`
	FaultUS int `json:"fault_us,omitempty"`
	// GCLimitUS: time limit of the collectors' cycles (0 = none).
	GCLimitUS int `json:"gc_limit_us,omitempty"`
}

const (
	opStorage   = "storage"   // A: 0 StorageSize, 1 IndexStorageSize, 2 PrimaryStorageSize, 3 FreelistStorageSize
	opCacheSize = "cachesize" // A: new file cache size
)

const c16Rule = "generated concurrent programs, free-running (no scheduler and no point handler installed, because either would add happens-before edges and hide races): 3-8 goroutines each looping over a drawn list of Put/Get/Has/GetSize/Remove/Flush/whole-store iteration/StorageSize (all four)/SetFileCacheSize/explicit primary GC calls (index GC cycles come from the store's own collector), on a started store with 0.2-3 ms sync and GC intervals (periodic flusher and both collectors running) and tiny file-size limits so roll-over and GC paths execute; in 2 of 7 programs an environment fault (a stray file at the next primary file name / a stray directory at the next index file name) makes a background flush fail midway so that the sticky-error paths run concurrently as well; built with -race -tags verif. " +
	"oracle = the Go race detector: every report is parsed into a signature (the innermost module frame of each of the two conflicting accesses, unordered) and is a violation; " +
	"non-trivial = the program has a writer, an explicit or periodic flusher, and at least two of {explicit primary GC caller, storage-size query, cache resize, iteration} running concurrently; distinct = distinct canonical JSON of the case"

func genRace(t *rapid.T) RaceCase {
	var c RaceCase
	c.Cfg = genConfig(t, cfgGenOpts{smallBits: true, smallFiles: true})
	if c.Cfg.Bits > 12 {
		c.Cfg.Bits = 8
	}
	if weighted(t, "mh", []int{1, 4}) == 1 {
		c.Cfg.Primary = store.MultihashPrimary
	}
	c.Cfg.Immutable = false
	c.Cfg.Sync = weighted(t, "syncOnFlush16", []int{2, 1}) == 1
	c.Keys = genKeys(t, c.Cfg, 3, 10)
	kinds := []string{opPut, opGet, opHas, opSize, opRemove, opFlush, opIter, opStorage, opCacheSize, opPGC}
	nw := rapid.IntRange(3, 8).Draw(t, "workers")
	for w := 0; w < nw; w++ {
		// Worker profiles: writers, readers, maintenance.
		prof := [][]int{{8, 2, 1, 1, 3, 1, 0, 0, 0, 0}, {1, 6, 2, 2, 0, 0, 1, 1, 0, 0}, {0, 0, 0, 0, 0, 2, 1, 3, 2, 4}, {3, 3, 1, 1, 1, 1, 1, 1, 1, 1}}[weighted(t, "profile", []int{3, 2, 3, 2})]
		ops := rapid.SliceOfN(rapid.Custom(func(t *rapid.T) Op {
			op := Op{K: kinds[weighted(t, "kind", prof)]}
			op.Key = rapid.IntRange(0, len(c.Keys)-1).Draw(t, "key")
			switch op.K {
			case opPut:
				op.VLen = []int{0, 1, 5, 20, 60}[rapid.IntRange(0, 4).Draw(t, "vlen")]
			case opStorage, opCacheSize:
				op.A = rapid.IntRange(0, 3).Draw(t, "a")
			case opPGC:
				op.A = []int{0, 50, 85, 100}[rapid.IntRange(0, 3).Draw(t, "lowuse")]
			}
			return op
		}), 1, 8).Draw(t, "ops")
		c.Workers = append(c.Workers, ops)
	}
	c.Rounds = rapid.IntRange(3, 25).Draw(t, "rounds")
	c.SyncUS = []int{200, 500, 1000, 3000}[rapid.IntRange(0, 3).Draw(t, "sync")]
	c.GCUS = []int{200, 500, 1000, 3000, 0}[rapid.IntRange(0, 4).Draw(t, "gc")]
	c.BackPressure = weighted(t, "backpressure", []int{3, 1}) == 1
	c.GCLimitUS = []int{0, 20, 100, 500}[weighted(t, "gclimit", []int{3, 1, 1, 1})]
	c.Fault = weighted(t, "fault", []int{5, 1, 1})
	if c.Fault > 0 {
		c.FaultUS = []int{0, 300, 1000, 3000}[rapid.IntRange(0, 3).Draw(t, "faultus")]
	}
	return c
}

func raceNonTrivial(c RaceCase) bool {
	has := map[string]bool{}
	for _, w := range c.Workers {
		for _, op := range w {
			has[op.K] = true
		}
	}
	others := 0
	for _, k := range []string{opPGC, opStorage, opCacheSize, opIter} {
		if has[k] {
			others++
		}
	}
	return (has[opPut] || has[opRemove]) && others >= 2
}

func runRace(c RaceCase) {
	dir := newScratch("race")
	defer os.RemoveAll(dir)
	gcI := time.Duration(c.GCUS) * time.Microsecond
	if c.GCUS == 0 {
		gcI = time.Hour // explicit callers only (GC must be enabled for them)
	}
	burst := uint64(1 << 40)
	if c.BackPressure {
		burst = 0
	}
	s, err := store.OpenStore(bg, c.Cfg.Primary, filepath.Join(dir, dataBase), filepath.Join(dir, idxBase), false,
		store.IndexBitSize(c.Cfg.Bits), store.IndexFileSize(c.Cfg.IdxSize), store.PrimaryFileSize(c.Cfg.PrimSize), store.FileCacheSize(c.Cfg.FileCache),
		store.GCInterval(gcI), store.GCTimeLimit(time.Duration(c.GCLimitUS)*time.Microsecond), store.SyncInterval(time.Duration(c.SyncUS)*time.Microsecond), store.BurstRate(burst), store.SyncOnFlush(c.Cfg.Sync))
	if err != nil {
		panic(infraError{err})
	}
	if c.BackPressure {
		// Set before any other goroutine exists; the setter takes the rate
		// lock and the pin is an atomic, so no ordering between the workers
		// is introduced.
		s.VerifPinFlushRate(1e-9)
		defer vhook.PinRate(0)
	}
	s.Start()
	if c.Rounds%3 == 0 {
		s.Start() // a second Start must not start a second flusher
	}
	var wg sync.WaitGroup
	if c.Fault > 0 {
		wg.Add(1)
		go func() {
			defer wg.Done()
			time.Sleep(time.Duration(c.FaultUS) * time.Microsecond)
			base := dataBase
			if c.Fault == 2 {
				base = idxBase
			}
			nums := numberedFiles(dir, base)
			next := uint32(0)
			if len(nums) > 0 {
				next = nums[len(nums)-1] + 1
			}
			for n := next; n < next+3; n++ {
				name := filepath.Join(dir, fmt.Sprintf("%s.%d", base, n))
				if c.Fault == 2 {
					os.Mkdir(name, 0o755)
				} else {
					os.WriteFile(name, []byte("stray"), 0o644)
				}
			}
		}()
	}
	// Index GC cycles are only run by the store's own collector goroutine
	// here: the verif-tagged VerifGC wrapper would run a second cycle next to
	// it, which production code never does (the cycle keeps its resume cursor
	// without synchronization by design), and would raise false alarms.
	for w, ops := range c.Workers {
		w, ops := w, ops
		wg.Add(1)
		go func() {
			defer wg.Done()
			defer func() { recover() }() // panics are judged by the other checks
			for r := 0; r < c.Rounds; r++ {
				for i, op := range ops {
					key := c.Keys[op.Key%len(c.Keys)].Encode(c.Cfg.Primary, false)
					switch op.K {
					case opPut:
						s.Put(key, valueFor(w*1000+r*10+i, op.VLen, false))
					case opGet:
						s.Get(key)
					case opHas:
						s.Has(key)
					case opSize:
						s.GetSize(key)
					case opRemove:
						s.Remove(key)
					case opFlush:
						s.Flush()
					case opIter:
						it := s.NewIterator()
						for n := 0; n < 50; n++ {
							if _, _, err := it.Next(); err == io.EOF || err != nil {
								break
							}
						}
					case opStorage:
						switch op.A % 4 {
						case 0:
							s.StorageSize()
						case 1:
							s.IndexStorageSize()
						case 2:
							s.PrimaryStorageSize()
						case 3:
							s.FreelistStorageSize()
						}
					case opCacheSize:
						s.SetFileCacheSize(op.A)
					case opPGC:
						if mp := mhPrimaryOf(s); mp != nil {
							mp.GC(bg, int64(op.A))
						}
					}
				}
			}
		}()
	}
	wg.Wait()
	s.Close()
}

var raceLogRE = regexp.MustCompile(`log_path=(\S+)`)

// raceLog returns the path of this process' race report file, or "".
func raceLog() string {
	m := raceLogRE.FindStringSubmatch(os.Getenv("GORACE"))
	if m == nil {
		return ""
	}
	return fmt.Sprintf("%s.%d", m[1], os.Getpid())
}

type raceReport struct {
	sig  string
	text string
}

var moduleFrameRE = regexp.MustCompile(`^\s+github\.com/ipld/go-storethehash/([^\s(]+(?:\([^)]*\))?[^\s(]*)\(`)

// parseRaceReports splits race detector output into reports and derives a
// signature from the innermost module frame of each conflicting access.
func parseRaceReports(text string) []raceReport {
	var out []raceReport
	for _, blk := range strings.Split(text, "==================") {
		if !strings.Contains(blk, "WARNING: DATA RACE") {
			continue
		}
		var sites []string
		inAccess := false
		found := false
		for _, l := range strings.Split(blk, "\n") {
			tl := strings.TrimSpace(l)
			switch {
			case strings.HasPrefix(tl, "Read at") || strings.HasPrefix(tl, "Write at") || strings.HasPrefix(tl, "Previous read at") || strings.HasPrefix(tl, "Previous write at") ||
				strings.HasPrefix(tl, "Atomic read at") || strings.HasPrefix(tl, "Previous atomic"):
				inAccess, found = true, false
			case strings.HasPrefix(tl, "Goroutine ") || tl == "":
				if tl != "" {
					inAccess = false
				}
			case inAccess && !found && strings.HasPrefix(tl, "github.com/ipld/go-storethehash/"):
				fn := strings.TrimPrefix(tl, "github.com/ipld/go-storethehash/")
				if i := strings.LastIndex(fn, "("); i > 0 {
					fn = fn[:i]
				}
				sites = append(sites, fn)
				found = true
			}
		}
		sort.Strings(sites)
		if len(sites) == 0 {
			sites = []string{"no-module-frame"}
		}
		out = append(out, raceReport{sig: "data-race|" + strings.Join(sites, " <-> ") + "|", text: strings.TrimSpace(blk)})
	}
	return out
}

func TestC16(t *testing.T) {
	ev := newEvidence("C16", "exploration", c16Rule)
	defer ev.Write()
	ev.Assumptions = []string{"the race detector judges the executions that happen; code that did not run concurrently in any generated program is not covered"}
	logPath := raceLog()
	if logPath == "" {
		t.Skip("GORACE log_path not set; run through ./check C16")
	}
	var offset int64
	newReports := func() []raceReport {
		f, err := os.Open(logPath)
		if err != nil {
			return nil
		}
		defer f.Close()
		f.Seek(offset, io.SeekStart)
		b, _ := io.ReadAll(f)
		// Only consume complete reports.
		s := string(b)
		end := strings.LastIndex(s, "==================")
		if end < 0 {
			return nil
		}
		end += len("==================")
		offset += int64(end)
		return parseRaceReports(s[:end])
	}
	check := func(c RaceCase, fatalf func(string, ...any)) {
		runRace(c)
		// The detector writes the report before the racing goroutine goes on;
		// everything of this case has finished, so the reports are complete.
		reps := newReports()
		ev.Record(c, raceNonTrivial(c), fmt.Sprintf("primary=%s", c.Cfg.Primary), fmt.Sprintf("back-pressure=%v", c.BackPressure), fmt.Sprintf("fault=%d", c.Fault))
		for _, r := range reps {
			v := viol(r.sig, 0, "%s", r.text)
			if len(v.Detail) > 3000 {
				v.Detail = v.Detail[:3000]
			}
			if ev.Report(v, c) {
				fatalf("%s", r.sig)
			}
		}
	}
	if envReplay != "" {
		var c RaceCase
		readReplay(envReplay, &c)
		for i := 0; i < 200; i++ {
			check(c, t.Fatalf)
		}
		return
	}
	for _, f := range regressFiles("C16") {
		var c RaceCase
		readReplay(f, &c)
		for i := 0; i < 30; i++ {
			check(c, func(f2 string, a ...any) { t.Fatalf("regression case "+f+": "+f2, a...) })
		}
	}
	setRapidChecks(budget(6000, 8000))
	rapid.Check(t, func(rt *rapid.T) {
		if pastDeadline() {
			ev.Skip()
			return
		}
		check(genRace(rt), rt.Fatalf)
	})
	ev.finish(t)
}
