package checks

import (
	"sync"

	"github.com/ipld/go-storethehash/store/vhook"
)

// pointCounter counts how often each named point of the code under test was
// passed; used to classify what a case exercised.
type pointCounter struct {
	mu sync.Mutex
	n  map[string]int
}

func newPointCounter() *pointCounter { return &pointCounter{n: map[string]int{}} }

func (p *pointCounter) install() {
	vhook.SetHandler(func(name string) {
		p.mu.Lock()
		p.n[name]++
		p.mu.Unlock()
	})
}

func (p *pointCounter) uninstall() { vhook.SetHandler(nil) }

func (p *pointCounter) get(name string) int {
	p.mu.Lock()
	defer p.mu.Unlock()
	return p.n[name]
}

func (p *pointCounter) snapshot() map[string]int {
	p.mu.Lock()
	defer p.mu.Unlock()
	out := make(map[string]int, len(p.n))
	for k, v := range p.n {
		out[k] = v
	}
	return out
}
