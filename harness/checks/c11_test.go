package checks

import (
	"fmt"
	"os"
	"path/filepath"
	"strings"
	"testing"
	"time"

	"github.com/ipld/go-storethehash/store"
	"github.com/ipld/go-storethehash/store/types"
	"pgregory.net/rapid"
)

// C11Case is a history followed by a kill phase and GC cycles to a fixed point.
type C11Case struct {
	Seq      SeqCase `json:"seq"`
	LowUse   int     `json:"low_use"`   // threshold used by every primary GC cycle (1..100)
	KillMode []int   `json:"kill_mode"` // per pool key: 0 = remove, 1 = overwrite (mutable stores)
	// IGCMode: the index cycles of the closure run the scan for unreferenced
	// files in every other cycle (0, like the periodic collector does from
	// time to time), never (1: records are reaped file by file only) or
	// always (2).
	IGCMode int `json:"igc_mode,omitempty"`
	// Background > 0: after the kill phase the store is closed and reopened
	// with both periodic collectors running (0.2 ms interval; time limit per
	// cycle: 1 none, 2 = 50 us, 3 = 500 us) and the harness only waits: the
	// collectors' own cycle logic (tick, time limit, resume, the every-n-th
	// scan for unreferenced files) has to release the files.
	Background int `json:"background,omitempty"`
	// KeepOldest: bit 0 - the kill phase spares the keys of the oldest
	// non-current primary file; bit 1 - it does not rewrite the buckets that
	// refer into the oldest non-current index file. The files behind a spared
	// one can then not be unlinked (they are not the oldest), they have to be
	// truncated to zero length.
	KeepOldest int `json:"keep_oldest,omitempty"`
	// HeldBack: the GC cycles inside the history are NOT preceded by a flush,
	// so some of them run with superseded locations still pending (the
	// collector then holds relocation back for that cycle). The closure's
	// cycles are preceded by a flush as always.
	HeldBack bool `json:"held_back,omitempty"`
}

type c11Stats struct {
	TargetPrimary   int
	TargetNotOldest bool
	TargetIndex     int
	Cycles          int
	Relocated       int
	SkippedPrecond  bool
	HeldBackVisit   bool
	Background      string // "", "released", "inconclusive"
}

const c11Rule = "rapid-generated histories on the multihash primary (small files, one fixed low-use threshold 1..100 per case, the GC cycles inside the history preceded by a flush in two thirds of the cases and not in the others, where some cycles run with superseded locations pending and hold relocation back) followed by a generated kill phase that removes or overwrites every key living in a non-current primary file and rewrites every bucket that refers into a non-current index file (in a third of the cases the oldest such primary and/or index file is spared, so that the files behind it cannot be unlinked and have to be truncated), flush, then [primary cycle, index cycle, flush] repeated (the index cycles with the scan for unreferenced files every other time, never, or always - drawn per case); " +
	"oracle = validity predicates: the directory becomes byte-identical across two consecutive rounds within 10+3*(records+files) rounds; at that fixed point every targeted primary file and every unreferenced targeted index file has length 0 or is gone, a dead non-empty file that is the oldest one when the first cycle visits it is unlinked and the first-file number advances past it, no non-current primary file with live records is low-use by the case's threshold; StorageSize right after a cycle <= StorageSize right before it + 2, and growth at the following flush <= outstanding work reported before that flush + 2; contents still equal the reference map; in a quarter of the cases the closure is left to the store's own periodic collectors instead (0.2 ms interval, cycle time limit none / 50 us / 500 us; verdict after >= 60 cycles of each collector, counted at their named points); an empty non-current file that is the header's first file when the store is reopened is unlinked by the next three cycles; " +
	"non-trivial = the kill phase emptied >=2 primary files one of which was not the oldest; distinct = distinct canonical JSON of the case"

func genC11(t *rapid.T) C11Case {
	var c C11Case
	c.Seq.Cfg = genConfig(t, cfgGenOpts{onlyMultihash: true, smallBits: true, smallFiles: true})
	if c.Seq.Cfg.Immutable && weighted(t, "keepImmutable", []int{3, 1}) == 0 {
		c.Seq.Cfg.Immutable = false
	}
	// Records must be able to share files, otherwise there is nothing to merge.
	c.Seq.Keys = genKeys(t, c.Seq.Cfg, 3, 12)
	kinds := []string{opPut, opRePut, opGet, opRemove, opFlush, opCheckAll, opPGC, opIGC, opReopen}
	m := genMix(t, kinds, []int{10, 1, 1, 3, 3, 1, 2, 2, 1})
	c.Seq.Ops = genOps(t, m, len(c.Seq.Keys), c.Seq.Cfg, 6, 40, false)
	c.LowUse = []int{1, 10, 25, 50, 75, 85, 100}[rapid.IntRange(0, 6).Draw(t, "lowuse")]
	c.KillMode = rapid.SliceOfN(rapid.IntRange(0, 1), len(c.Seq.Keys), len(c.Seq.Keys)).Draw(t, "killmode")
	c.IGCMode = weighted(t, "igcmode", []int{2, 2, 1})
	c.Background = weighted(t, "background", []int{9, 1, 1, 1})
	c.KeepOldest = weighted(t, "keepoldest", []int{4, 1, 2, 1})
	c.HeldBack = weighted(t, "heldback", []int{2, 1}) == 1
	if c.HeldBack && weighted(t, "heldbackspare", []int{1, 2}) == 1 {
		// Make the directed part of this mode likely: spare the oldest file
		// and use a threshold that a file with one survivor falls below.
		c.KeepOldest |= 1
		c.LowUse = []int{75, 85, 100}[rapid.IntRange(0, 2).Draw(t, "heldbacklowuse")]
		c.Seq.Cfg.PrimSize = []uint32{100, 160, 200}[rapid.IntRange(0, 2).Draw(t, "heldbackprim")]
		c.Seq.Keys = extendKeys(c.Seq.Keys, 12)
		for k := range c.Seq.Keys {
			c.Seq.Ops = append(c.Seq.Ops, Op{K: opPut, Key: k, VLen: 5 + k%9})
		}
		c.Seq.Ops = append(c.Seq.Ops, Op{K: opFlush})
		c.KillMode = append(c.KillMode, make([]int, len(c.Seq.Keys))...)
	}
	return c
}

// c11Background: see C11Case.Background. The bound is counted in cycles, not
// in time: the verdict "not released" needs >= 60 completed cycles of each
// collector after the kill phase; "collector not cycling" needs fewer than 3
// cycles of a collector in 3 s at a 0.2 ms interval (four orders of magnitude
// of slack); everything in between is inconclusive.
func c11Background(r *seqRunner, step int, c C11Case, targetsP, targetsI map[uint32]bool, cs *c11Stats) *Violation {
	if v := r.closeStore(step, "c11-background"); v != nil {
		return v
	}
	cfg := r.c.Cfg
	limit := []time.Duration{0, 0, 50 * time.Microsecond, 500 * time.Microsecond}[c.Background%4]
	pc := newPointCounter()
	pc.install()
	defer pc.uninstall()
	s, err := store.OpenStore(bg, cfg.Primary, filepath.Join(r.dir, dataBase), filepath.Join(r.dir, idxBase), cfg.Immutable,
		store.IndexBitSize(cfg.Bits), store.IndexFileSize(cfg.IdxSize), store.PrimaryFileSize(cfg.PrimSize), store.FileCacheSize(cfg.FileCache),
		store.GCInterval(200*time.Microsecond), store.GCTimeLimit(limit), store.SyncInterval(time.Millisecond), store.BurstRate(1<<40), store.SyncOnFlush(cfg.Sync))
	if err != nil {
		return viol("open-error|c11-background|"+errClass(err), step, "reopen with periodic collectors: %v", err)
	}
	r.s = s
	s.Start()
	released := func() (string, bool) {
		prim := fileSizes(r.dir, dataBase)
		for n := range targetsP {
			if sz, exists := prim[n]; exists && sz != 0 {
				return fmt.Sprintf("primary file %d still has %d bytes", n, sz), false
			}
		}
		idx := fileSizes(r.dir, idxBase)
		for n := range targetsI {
			if sz, exists := idx[n]; exists && sz != 0 {
				return fmt.Sprintf("index file %d still has %d bytes", n, sz), false
			}
		}
		return "", true
	}
	deadline := time.Now().Add(3 * time.Second)
	what := ""
	for {
		var ok bool
		if what, ok = released(); ok {
			cs.Cycles = pc.get("pgc.begin")
			cs.Background = "released"
			return nil
		}
		p, i := pc.get("pgc.begin"), pc.get("igc.begin")
		if p >= 60 && i >= 60 {
			clause := "dead-primary-file-not-released"
			if strings.HasPrefix(what, "index") {
				clause = "unreferenced-index-file-not-released"
			}
			return viol(clause+"|background|", step, "%s after %d primary and %d index GC cycles of the periodic collectors (time limit %v) on an otherwise idle store", what, p, i, limit)
		}
		if time.Now().After(deadline) {
			if p < 3 || i < 3 {
				return viol("no-fixed-point|background|collector-not-cycling", step, "%s, and the periodic collectors ran only %d primary / %d index cycles in 3 s at a 0.2 ms interval (time limit %v)", what, p, i, limit)
			}
			cs.Background = "inconclusive"
			return nil
		}
		time.Sleep(2 * time.Millisecond)
	}
}

func fileSizes(dir, base string) map[uint32]int64 {
	out := map[uint32]int64{}
	for _, n := range numberedFiles(dir, base) {
		if fi, err := os.Stat(filepath.Join(dir, fmt.Sprintf("%s.%d", base, n))); err == nil {
			out[n] = fi.Size()
		}
	}
	return out
}

func maxKey(m map[uint32]int64) (uint32, bool) {
	var mx uint32
	ok := false
	for k := range m {
		if !ok || k > mx {
			mx, ok = k, true
		}
	}
	return mx, ok
}

// primaryUse parses a primary file the way the format describes it and
// returns the bytes in live and in deleted records (size fields, without the
// 4-byte prefixes, as the low-use rule counts them).
func primaryUse(path string) (busy, free int64, err error) {
	b, err := os.ReadFile(path)
	if err != nil {
		return 0, 0, err
	}
	for p := int64(0); p+4 <= int64(len(b)); {
		raw := u32(b[p:])
		size := int64(raw &^ fsckDeleted)
		if raw&fsckDeleted != 0 {
			free += size
		} else {
			busy += size
		}
		p += 4 + size
	}
	return busy, free, nil
}

func runC11(c C11Case) (SeqStats, c11Stats, *Violation) {
	var cs c11Stats
	pc := newPointCounter()
	o := seqOpts{TrackGC: true, FlushBeforeGC: !c.HeldBack, FixedLowUse: c.LowUse, Points: pc}
	o.Epilogue = func(r *seqRunner, step int) *Violation {
		return c11Closure(r, step, c, pc, &cs, true)
	}
	st, v := runSeq(c.Seq, o)
	return st, cs, v
}

// c11Closure is the kill phase and the GC rounds to a fixed point, run on an
// open store. afterCleanHistory is false for stores recovered from a crash
// image: superseded records whose freelist entry was lost in the crash look
// live for ever by design (a space leak), so the "dead file is released"
// clauses are not asserted there; the low-use drain, fixed-point and storage
// clauses are.
func c11Closure(r *seqRunner, step int, c C11Case, pc *pointCounter, csp *c11Stats, afterCleanHistory bool) *Violation {
	cs := *csp
	defer func() { *csp = cs }()
	{
		s := r.s
		cfg := r.c.Cfg
		mp := mhPrimaryOf(s)
		flush := func(what string) *Violation {
			if err := s.Flush(); err != nil {
				return viol("flush-error|"+what+"|"+errClass(err), step, "Flush: %v", err)
			}
			return nil
		}
		if v := flush("kill"); v != nil {
			return v
		}
		P := effectiveSize(cfg.PrimSize)
		// ---- kill phase, primary
		prim := fileSizes(r.dir, dataBase)
		curPrim, ok := maxKey(prim)
		if !ok {
			cs.SkippedPrecond = true
			return nil
		}
		targetsP := map[uint32]bool{}
		oldest := curPrim
		for n, sz := range prim {
			if n < oldest {
				oldest = n
			}
			if n < curPrim && sz > 0 {
				targetsP[n] = true
			}
		}
		if c.KeepOldest&1 != 0 && len(targetsP) >= 2 {
			spare := curPrim
			for n := range targetsP {
				if n < spare {
					spare = n
				}
			}
			delete(targetsP, spare)
			if c.HeldBack {
				// The spared file becomes low-use with its last record alive
				// (nothing to truncate), the removals are flushed, and it is
				// first visited as low-use by a cycle that holds relocation
				// back because another superseded location is still pending.
				type rec struct {
					k   int
					off uint64
				}
				var inSpare, elsewhere []rec
				for k, ks := range r.c.Keys {
					if _, present := r.model[string(ks.Digest)]; !present {
						continue
					}
					if blk, found, err := s.Index().Get(ks.Digest); err == nil && found {
						if fn := uint32(uint64(blk.Offset) / P); fn == spare {
							inSpare = append(inSpare, rec{k, uint64(blk.Offset)})
						} else if targetsP[fn] {
							elsewhere = append(elsewhere, rec{k, uint64(blk.Offset)})
						}
					}
				}
				if len(inSpare) >= 2 && len(elsewhere) >= 1 {
					last := inSpare[0]
					for _, x := range inSpare {
						if x.off > last.off {
							last = x
						}
					}
					for _, x := range inSpare {
						if x.k != last.k {
							if v := r.step(step, Op{K: opRemove, Key: x.k}); v != nil {
								return v
							}
						}
					}
					if v := flush("held-back"); v != nil {
						return v
					}
					if v := r.step(step, Op{K: opRemove, Key: elsewhere[0].k}); v != nil {
						return v
					}
					if v := r.step(step, Op{K: opPGC}); v != nil { // no flush before it in this mode
						return v
					}
					cs.HeldBackVisit = true
				}
			}
		}
		recordsInTargets := 0
		for k, ks := range r.c.Keys {
			if _, present := r.model[string(ks.Digest)]; !present {
				continue
			}
			blk, found, err := s.Index().Get(ks.Digest)
			if err != nil || !found {
				return viol("index-get|kill|"+errClass(err), step, "Index().Get(%x) found=%v err=%v for a key the model holds", ks.Digest, found, err)
			}
			fn := uint32(uint64(blk.Offset) / P)
			if !targetsP[fn] {
				continue
			}
			recordsInTargets++
			kind := opRemove
			if !cfg.Immutable && c.KillMode[k%len(c.KillMode)] == 1 {
				kind = opPut
			}
			if v := r.step(step, Op{K: kind, Key: k, VLen: 3 + k%5}); v != nil {
				return v
			}
		}
		if v := flush("kill"); v != nil {
			return v
		}
		cs.TargetPrimary = len(targetsP)
		for n := range targetsP {
			if n != oldest {
				cs.TargetNotOldest = true
			}
		}
		// ---- kill phase, index: rewrite every bucket that refers into a
		// non-current index file.
		bits, M32 := s.Index().VerifConfig()
		M := uint64(M32)
		curIdx := s.Index().VerifFileNum()
		idxFiles := fileSizes(r.dir, idxBase)
		targetsI := map[uint32]bool{}
		for n, sz := range idxFiles {
			if n < curIdx && sz > 0 {
				targetsI[n] = true
			}
		}
		if c.KeepOldest&2 != 0 && len(targetsI) >= 2 {
			spare := curIdx
			for n := range targetsI {
				if n < spare {
					spare = n
				}
			}
			delete(targetsI, spare)
		}
		byBucket := map[uint32][]int{}
		for k, ks := range r.c.Keys {
			b := bucketOf(ks.Digest, bits)
			byBucket[b] = append(byBucket[b], k)
		}
		for b, pos := range s.Index().VerifBuckets() {
			if pos == 0 {
				continue
			}
			fn := uint32((uint64(pos) - 4) / M)
			if !targetsI[fn] {
				continue
			}
			keys := byBucket[uint32(b)]
			if len(keys) == 0 {
				cs.SkippedPrecond = true
				return nil
			}
			k := keys[0]
			_, present := r.model[string(r.c.Keys[k].Digest)]
			if present && cfg.Immutable {
				if v := r.step(step, Op{K: opRemove, Key: k}); v != nil {
					return v
				}
			}
			if v := r.step(step, Op{K: opPut, Key: k, VLen: 4}); v != nil {
				return v
			}
		}
		if v := flush("kill"); v != nil {
			return v
		}
		for _, pos := range s.Index().VerifBuckets() {
			if pos != 0 && targetsI[uint32((uint64(pos)-4)/M)] {
				// A bucket still refers into a targeted file (possible when a
				// flush wrote into the then-current file); the index clause
				// is not applicable to that file.
				delete(targetsI, uint32((uint64(pos)-4)/M))
			}
		}
		cs.TargetIndex = len(targetsI)

		if c.Background > 0 && afterCleanHistory {
			return c11Background(r, step, c, targetsP, targetsI, &cs)
		}
		// ---- cycles to a fixed point
		nFiles := len(fileSizes(r.dir, dataBase)) + len(fileSizes(r.dir, idxBase))
		liveRecords := len(r.model)
		nMax := 10 + 3*(liveRecords+recordsInTargets) + 3*nFiles
		storage := func() (int64, *Violation) {
			sz, err := s.StorageSize()
			if err != nil {
				return 0, viol("storage-size-error|cycle|"+errClass(err), step, "StorageSize: %v", err)
			}
			return sz, nil
		}
		// "unlinked when it is the oldest file at the time it is visited":
		// a dead, non-empty file that is the header's first file when the
		// first cycle starts has pending freelist entries, is therefore
		// revisited in that cycle while it is the oldest, and must be gone
		// afterwards; the same holds for the dead non-empty files that
		// become the oldest one as the first-file number advances.
		sizeAtStart := fileSizes(r.dir, dataBase)
		// An unfinished .gc batch of an interrupted earlier cycle is processed
		// first; the entries of the kill phase are then applied one cycle
		// later, so the clause is only decidable without such a leftover.
		_, gcLeftErr := os.Stat(filepath.Join(r.dir, idxBase+".free.gc"))
		unlinkClause := os.IsNotExist(gcLeftErr)
		firstAtStart := uint32(0)
		if ph, err := readJSONHeader(filepath.Join(r.dir, dataBase+".info")); err == nil {
			firstAtStart = uint32(hdrInt(ph, "FirstFile"))
		}
		prevHash := ""
		converged := false
		relocBefore := pc.get("pgc.reap.relocate")
		for n := 1; n <= nMax; n++ {
			cs.Cycles = n
			for gcKind := 0; gcKind < 2; gcKind++ {
				before, v := storage()
				if v != nil {
					return v
				}
				var err error
				what := "pgc"
				if gcKind == 0 {
					_, err = mp.GC(gcCtx(0), int64(c.LowUse))
				} else {
					what = "igc"
					scanFree := n%2 == 1
					if c.IGCMode == 1 {
						scanFree = false
					} else if c.IGCMode == 2 {
						scanFree = true
					}
					_, _, err = s.Index().VerifGC(gcCtx(0), scanFree)
				}
				if err != nil {
					// A failing cycle is not a violation by itself (the
					// statement bounds the number of cycles, and the bound
					// below is generous); it simply makes no progress.
					r.stats.GCErrors = append(r.stats.GCErrors, what+": "+errClass(err))
				}
				after, v := storage()
				if v != nil {
					return v
				}
				if after > before+2 {
					return viol("storage-grew-in-cycle|"+what+"|", step, "StorageSize grew from %d to %d during %s cycle %d (nothing was flushed)", before, after, what, n)
				}
			}
			if n == 1 && unlinkClause && afterCleanHistory {
				if ph, err := readJSONHeader(filepath.Join(r.dir, dataBase+".info")); err == nil {
					firstNow := uint32(hdrInt(ph, "FirstFile"))
					left := fileSizes(r.dir, dataBase)
					for fn := firstAtStart; fn < firstNow; fn++ {
						if _, exists := left[fn]; exists {
							return viol("oldest-dead-file-not-unlinked|cycle1|file-below-first-file-exists", step, "primary file %d still exists although the header's first file advanced to %d", fn, firstNow)
						}
					}
					if targetsP[firstNow] && sizeAtStart[firstNow] > 0 && firstNow < curPrim {
						if _, exists := left[firstNow]; exists {
							return viol("oldest-dead-file-not-unlinked|cycle1|dead-first-file-kept", step, "primary file %d held no live key, was non-empty and the oldest file when the GC cycle visited it, but it was not unlinked (size now %d, first file %d)", firstNow, left[firstNow], firstNow)
						}
					}
				}
			}
			before, v := storage()
			if v != nil {
				return v
			}
			work := int64(s.Index().OutstandingWork()) + int64(s.Primary().OutstandingWork())
			var flWork types.Work
			// The freelist's outstanding work is not exported through the
			// store; relocations put one 12-byte entry each.
			// (two when the index refuses the move: the copy and the old record)
			flWork = types.Work(24 * (pc.get("pgc.reap.relocate") - relocBefore))
			if v := flush("cycle"); v != nil {
				return v
			}
			after, v := storage()
			if v != nil {
				return v
			}
			if after > before+work+int64(flWork)+2 {
				return viol("storage-grew-at-flush|flush|", step, "StorageSize grew by %d at the flush after cycle %d, but only %d bytes of relocated work were outstanding", after-before, n, work+int64(flWork))
			}
			if os.Getenv("VERIF_DEBUG") != "" {
				for fn, sz := range fileSizes(r.dir, dataBase) {
					busy, free, _ := primaryUse(filepath.Join(r.dir, fmt.Sprintf("%s.%d", dataBase, fn)))
					fmt.Printf("round %d file %d size %d busy %d free %d\n", n, fn, sz, busy, free)
				}
				fmt.Printf("round %d relocs %d points %v\n", n, pc.get("pgc.reap.relocate"), pc.snapshot())
			}
			h := readDirImage(r.dir).hash()
			if h == prevHash {
				converged = true
				break
			}
			prevHash = h
		}
		cs.Relocated = pc.get("pgc.reap.relocate") - relocBefore
		if !converged {
			return viol("no-fixed-point|cycle|", step, "directory still changing after %d rounds of [primary GC, index GC, flush] on an otherwise idle store", nMax)
		}
		// ---- predicates at the fixed point
		prim = fileSizes(r.dir, dataBase)
		if !afterCleanHistory {
			targetsP, targetsI = map[uint32]bool{}, map[uint32]bool{}
		}
		for n := range targetsP {
			if sz, exists := prim[n]; exists && sz != 0 {
				return viol("dead-primary-file-not-released|fixedpoint|", step, "primary file %d held no live key after the kill phase but still has %d bytes at the GC fixed point (%d rounds)", n, sz, cs.Cycles)
			}
		}
		idxFiles = fileSizes(r.dir, idxBase)
		for n := range targetsI {
			if sz, exists := idxFiles[n]; exists && sz != 0 {
				return viol("unreferenced-index-file-not-released|fixedpoint|", step, "index file %d is referenced by no bucket but still has %d bytes at the GC fixed point (%d rounds)", n, sz, cs.Cycles)
			}
		}
		curPrim, _ = maxKey(prim)
		for n, sz := range prim {
			if n >= curPrim || sz == 0 {
				continue
			}
			busy, free, err := primaryUse(filepath.Join(r.dir, fmt.Sprintf("%s.%d", dataBase, n)))
			if err != nil {
				continue
			}
			// The collector counts the bytes of deleted records while it
			// walks the file; once spans are merged, the 4-byte prefixes of
			// the merged-in records count as free bytes too, so a later
			// reading of the same file can be a few percent "more free" than
			// what the collector saw when it decided. Only a file that is
			// low-use even when a quarter of its free bytes and two more
			// prefixes are discounted is reported (the earlier margin of a fifth
			// still produced boundary alarms in thorough runs).
			freeMin := free*3/4 - 8
			if busy > 0 && freeMin > 0 && 100*freeMin > int64(c.LowUse)*(freeMin+busy) {
				return viol("low-use-file-not-drained|fixedpoint|", step, "primary file %d has %d live and %d free bytes (threshold %d%%) at the GC fixed point and was not drained", n, busy, free, c.LowUse)
			}
		}
		if !afterCleanHistory {
			return nil
		}
		// ---- after a restart. A file that was emptied while an older file was
		// still alive is not looked at again by the same process; a new process
		// visits every file again, and "it is unlinked when it is the oldest
		// file at the time it is visited" applies to it: an empty file must not
		// stay the oldest one, and no empty file may sit below the first live one.
		if v := r.closeStore(step, "c11-restart"); v != nil {
			return v
		}
		s2, err := openStore(r.dir, cfg)
		if err != nil {
			return viol("open-error|c11-restart|"+errClass(err), step, "reopen after the fixed point: %v", err)
		}
		r.s = s2
		// The file that is the oldest when the fresh process starts: it is the
		// first one the first cycle visits, so "unlinked when it is the oldest
		// file at the time it is visited" applies to it without any doubt. (An
		// empty file that only becomes the oldest later, after it was visited,
		// is not looked at again by the same process - that is how the
		// collector works and not against the statement.)
		firstAtRestart, emptyFirstAtRestart := uint32(0), false
		if ph, err := readJSONHeader(filepath.Join(r.dir, dataBase+".info")); err == nil {
			firstAtRestart = uint32(hdrInt(ph, "FirstFile"))
			sizes := fileSizes(r.dir, dataBase)
			cur0, _ := maxKey(sizes)
			if sz, exists := sizes[firstAtRestart]; exists && sz == 0 && firstAtRestart < cur0 {
				emptyFirstAtRestart = true
			}
		}
		var gcReturns []string
		if mp2 := mhPrimaryOf(s2); mp2 != nil {
			for n := 0; n < 3; n++ {
				rec, err := mp2.GC(gcCtx(0), int64(c.LowUse))
				gcReturns = append(gcReturns, fmt.Sprintf("(%d, %v)", rec, err))
				if err != nil {
					r.stats.GCErrors = append(r.stats.GCErrors, "pgc: "+errClass(err))
					if os.Getenv("VERIF_DEBUG") != "" {
						fmt.Println("restart-phase GC error:", err)
					}
				}
				if err := s2.Flush(); err != nil {
					return viol("flush-error|c11-restart|"+errClass(err), step, "Flush: %v", err)
				}
			}
		}
		prim = fileSizes(r.dir, dataBase)
		curPrim, _ = maxKey(prim)
		if emptyFirstAtRestart {
			first := firstAtRestart
			if sz, exists := prim[first]; exists && sz == 0 && first < curPrim {
				return viol("oldest-dead-file-not-unlinked|after-restart|empty-first-file-kept", step, "primary file %d was empty, the header's first file and not the current file (%d) when the store was reopened; three GC cycles of that fresh process visited it first and did not unlink it (the cycles returned %v; primary files now: %v)", first, curPrim, gcReturns, prim)
			}
		}
		return nil
	}
}

func TestC11(t *testing.T) {
	ev := newEvidence("C11", "exploration", c11Rule)
	defer ev.Write()
	own := map[string]bool{"storage-grew-in-cycle": true, "storage-grew-at-flush": true, "no-fixed-point": true,
		"dead-primary-file-not-released": true, "oldest-dead-file-not-unlinked": true, "unreferenced-index-file-not-released": true, "low-use-file-not-drained": true,
	}
	judge := func(v *Violation) *Violation {
		if v == nil {
			return nil
		}
		clause := v.Signature
		for i, ch := range clause {
			if ch == '|' {
				clause = clause[:i]
				break
			}
		}
		if !own[clause] {
			ev.Class("foreign-failure-not-progress", 1)
			return nil
		}
		return v
	}
	classes := func(c C11Case, st SeqStats, cs c11Stats) []string {
		cl := seqClasses(c.Seq, st)
		if cs.SkippedPrecond {
			cl = append(cl, "kill-phase-not-applicable")
		}
		if cs.TargetPrimary > 0 {
			cl = append(cl, "target-primary-files")
		}
		if cs.TargetIndex > 0 {
			cl = append(cl, "target-index-files")
		}
		if cs.Relocated > 0 {
			cl = append(cl, "relocated-in-closure")
		}
		if cs.Cycles > 3 {
			cl = append(cl, "rounds>3")
		}
		if cs.Background != "" {
			cl = append(cl, "closure-by-periodic-collectors:"+cs.Background)
		}
		if c.HeldBack {
			cl = append(cl, "history-cycles-without-flush")
		}
		if cs.HeldBackVisit {
			cl = append(cl, "low-use-file-first-visited-by-a-held-back-cycle")
		}
		return cl
	}
	runImageReplay := func(path string) *Violation {
		var rp struct {
			C11   C11Case           `json:"c11"`
			Image map[string]string `json:"image_hex"`
		}
		readReplay(path, &rp)
		v, _ := runC11OnImage(rp.C11, unhexImage(rp.Image))
		ev.Record(rp.C11, true, "crash:recovered-store")
		return judge(v)
	}
	// Workload replays re-run the crash workload and pick the same state, so
	// they stay meaningful when a fix makes the recorded image unreachable.
	pickState := func(cr *crashRun, j, p int) crashState {
		if j%2 == 0 || len(cr.specs) == 0 {
			return cr.state(p % len(cr.rec.snaps))
		}
		spec := cr.specs[p%len(cr.specs)]
		return cr.rec.tornState(spec, (p/7919)%spec.count())
	}
	runWorkloadReplay := func(path string) *Violation {
		var rp struct {
			C11      C11Case   `json:"c11"`
			Workload CrashCase `json:"workload"`
			PickIdx  int       `json:"pick_index"`
		}
		readReplay(path, &rp)
		cr := runCrashWorkload(rp.Workload)
		if !cr.workloadOK || cr.total == 0 {
			return nil
		}
		st := pickState(cr, rp.PickIdx, rp.Workload.Picks[rp.PickIdx])
		v, _ := runC11OnImage(rp.C11, st.Image)
		ev.Record(rp.C11, true, "crash:recovered-store")
		return judge(v)
	}
	isWorkloadReplay := func(path string) bool {
		return strings.Contains(string(readReplayRaw(path).Case), `"workload"`)
	}
	if envReplay != "" && isWorkloadReplay(envReplay) {
		for i := 0; i < 5; i++ {
			if v := runWorkloadReplay(envReplay); v != nil {
				ev.Report(v, nil)
				t.Fatalf("replay: %v", v)
			}
		}
		return
	}
	if envReplay != "" && strings.Contains(string(readReplayRaw(envReplay).Case), "image_hex") {
		for i := 0; i < 5; i++ {
			if v := runImageReplay(envReplay); v != nil {
				ev.Report(v, nil)
				t.Fatalf("replay: %v", v)
			}
		}
		return
	}
	if envReplay != "" {
		var c C11Case
		readReplay(envReplay, &c)
		for i := 0; i < 10; i++ {
			st, cs, v := runC11(c)
			ev.Record(c, true, classes(c, st, cs)...)
			if v = judge(v); v != nil {
				ev.Report(v, c)
				t.Fatalf("replay: %v", v)
			}
		}
		return
	}
	for _, f := range regressFiles("C11") {
		if isWorkloadReplay(f) {
			if v := runWorkloadReplay(f); v != nil && ev.Report(v, nil) {
				t.Fatalf("regression case %s: %v", f, v)
			}
			continue
		}
		if strings.Contains(string(readReplayRaw(f).Case), "image_hex") {
			if v := runImageReplay(f); v != nil && ev.Report(v, nil) {
				t.Fatalf("regression case %s: %v", f, v)
			}
			continue
		}
		var c C11Case
		readReplay(f, &c)
		st, cs, v := runC11(c)
		ev.Record(c, true, append(classes(c, st, cs), "regression-case")...)
		if v = judge(v); v != nil && ev.Report(v, c) {
			t.Fatalf("regression case %s: %v", f, v)
		}
	}
	setRapidChecks(budget(8000, 20000))
	rapid.Check(t, func(rt *rapid.T) {
		if pastDeadline() || os.Getenv("VERIF_FOCUS") == "crash" { // the latter: development aid
			ev.Skip()
			return
		}
		c := genC11(rt)
		st, cs, v := runC11(c)
		ev.Record(c, cs.TargetPrimary >= 2 && cs.TargetNotOldest, classes(c, st, cs)...)
		if v = judge(v); v != nil && ev.Report(v, c) {
			rt.Fatalf("%v", v)
		}
	})
	// Crash sub-campaign: the same closure on stores recovered from crash
	// images (orphan records of an interrupted flush, lost freelist entries).
	crashStores := 0
	setRapidChecks(budget(700, 1500))
	rapid.Check(t, func(rt *rapid.T) {
		if pastDeadline() {
			ev.Skip()
			return
		}
		cc := genCrashCase(rt)
		cc.Seq.Cfg.Primary = store.MultihashPrimary
		for i := range cc.Seq.Keys {
			cc.Seq.Keys[i].CidV0 = false
		}
		lowUse := []int{10, 25, 50, 75, 85}[rapid.IntRange(0, 4).Draw(rt, "lowuse")]
		kill := rapid.SliceOfN(rapid.IntRange(0, 1), len(cc.Seq.Keys), len(cc.Seq.Keys)).Draw(rt, "killmode")
		cr := runCrashWorkload(cc)
		if !cr.workloadOK || cr.total == 0 {
			ev.Class("crash:workload-failed(foreign)", 1)
			return
		}
		for j, p := range cc.Picks[:3] {
			st := pickState(cr, j, p)
			c := C11Case{Seq: SeqCase{Cfg: cc.Seq.Cfg, Keys: cc.Seq.Keys}, LowUse: lowUse, KillMode: kill}
			v, cs := runC11OnImage(c, st.Image)
			crashStores++
			ev.Record(struct {
				H string
				T int
			}{st.Image.hash(), lowUse}, cs.Relocated > 0 || cs.TargetPrimary > 0, "crash:recovered-store")
			if v = judge(v); v != nil {
				rp := struct {
					C11      C11Case           `json:"c11"`
					Point    string            `json:"point"`
					Torn     string            `json:"torn"`
					Workload CrashCase         `json:"workload"`
					PickIdx  int               `json:"pick_index"`
					Image    map[string]string `json:"image_hex"`
				}{c, st.Point, st.Torn, cc, j, hexImage(st.Image)}
				if ev.Report(v, rp) {
					rt.Fatalf("%v", v)
				}
			}
		}
	})
	ev.Extra["crash_recovered_stores"] = crashStores
	ev.finish(t)
}

// runC11OnImage restores a crash image, opens it, takes what it reads as the
// model and runs the closure.
func runC11OnImage(c C11Case, img dirImage) (*Violation, c11Stats) {
	var cs c11Stats
	dir := newScratch("c11rec")
	defer os.RemoveAll(dir)
	img.writeTo(dir)
	s, err := openStore(dir, c.Seq.Cfg)
	if err != nil {
		return nil, cs // C03's subject
	}
	r := &seqRunner{c: c.Seq, o: seqOpts{}, dir: dir, s: s, model: map[string][]byte{}, everFlushed: map[string]bool{}}
	r.stats.GCKinds = map[string]bool{}
	defer func() {
		if r.s != nil {
			closeQuietly(r.s)
		}
	}()
	pc := newPointCounter()
	pc.install()
	defer pc.uninstall()
	v := guard(0, "recovered-closure", func() *Violation {
		for _, ks := range c.Seq.Keys {
			got, found, err := s.Get(ks.Encode(c.Seq.Cfg.Primary, false))
			if err != nil {
				return nil // C03's subject
			}
			if found {
				r.model[string(ks.Digest)] = append([]byte{}, got...)
			}
		}
		return c11Closure(r, 0, c, pc, &cs, false)
	})
	return v, cs
}
