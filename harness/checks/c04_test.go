package checks

import (
	"testing"

	"pgregory.net/rapid"
)

var c04Kinds = []string{opPut, opRePut, opGet, opHas, opSize, opRemove, opFlush, opIter, opCheckAll, opPGC, opIGC, opReopen}
var c04MaxW = []int{9, 1, 2, 1, 1, 5, 2, 1, 1, 5, 4, 1}

func genC04(t *rapid.T) SeqCase {
	if weighted(t, "focus", []int{3, 1}) == 1 {
		return genIndexGCFocused(t, true)
	}
	var c SeqCase
	c.Cfg = genConfig(t, cfgGenOpts{onlyMultihash: true, smallBits: true, smallFiles: true})
	// The statement is about mutable and immutable stores alike; overwrites
	// (which feed the freelist) need a mutable one.
	if c.Cfg.Immutable && weighted(t, "keepImmutable", []int{2, 1}) == 0 {
		c.Cfg.Immutable = false
	}
	c.Keys = genKeys(t, c.Cfg, 2, 10)
	m := genMix(t, c04Kinds, c04MaxW)
	if m.weights[9] == 0 && m.weights[10] == 0 {
		m.weights[9] = 2
	}
	c.Ops = genOps(t, m, len(c.Keys), c.Cfg, 6, 50, false)
	return c
}

const c04Rule = "rapid-generated histories as in C01 on the multihash primary with small file-size limits, with primary GC cycles (low-use threshold 0..100, optional call budget that interrupts the cycle) and index GC cycles (scan-free on/off, optional budget) and close/reopen at arbitrary positions, including before the first flush and several cycles in a row; " +
	"oracle = reference map (GC actions do not change it) + no error/panic from GC + metamorphic attribution (the same history with GC actions skipped must pass); " +
	"non-trivial = at least one GC cycle changed at least one byte on disk and every key was read afterwards; distinct = distinct canonical JSON of the case"

var gcSkip = map[string]bool{opPGC: true, opIGC: true}

func gcPointClasses(pc *pointCounter) []string {
	var cl []string
	names := map[string]string{
		"pgc.fl.mark": "pgc-freelist-mark", "pgc.reap.merge": "pgc-merge", "pgc.reap.truncate": "pgc-truncate",
		"pgc.header": "pgc-header-advance", "pgc.unlink": "pgc-unlink", "pgc.reap.relocate": "pgc-relocate",
		"igc.reap.mark": "igc-mark", "igc.reap.merge": "igc-merge", "igc.reap.truncate": "igc-truncate",
		"igc.header": "igc-header-advance", "igc.unlink": "igc-unlink", "igc.free.truncate": "igc-free-truncate",
		"igc.free.unlink": "igc-free-unlink",
	}
	for p, c := range names {
		if pc.get(p) > 0 {
			cl = append(cl, c)
		}
	}
	if pc.get("pgc.reap.relocate") >= 2 {
		cl = append(cl, "pgc-relocate>=2")
	}
	return cl
}

func TestC04(t *testing.T) {
	ev := newEvidence("C04", "exploration", c04Rule)
	defer ev.Write()
	opts := func() seqOpts { return seqOpts{TrackGC: true, Points: newPointCounter()} }
	// attribute decides whether a failing case violates C04: it does if the
	// same history passes once the GC actions are skipped.
	attribute := func(c SeqCase, v *Violation) bool {
		_, v2 := runSeq(c, seqOpts{Skip: gcSkip})
		if v2 != nil {
			ev.Class("foreign-failure-without-gc", 1)
			return false
		}
		return true
	}
	if envReplay != "" {
		var c SeqCase
		readReplay(envReplay, &c)
		for i := 0; i < 20; i++ {
			st, v := runSeq(c, opts())
			ev.Record(c, true, seqClasses(c, st)...)
			if v != nil && attribute(c, v) {
				ev.Report(v, c)
				t.Fatalf("replay: %v", v)
			}
		}
		return
	}
	for _, f := range regressFiles("C04") {
		var c SeqCase
		readReplay(f, &c)
		for i := 0; i < 3; i++ {
			st, v := runSeq(c, opts())
			ev.Record(c, true, append(seqClasses(c, st), "regression-case")...)
			if v != nil && attribute(c, v) && ev.Report(v, c) {
				t.Fatalf("regression case %s: %v", f, v)
			}
		}
	}
	setRapidChecks(budget(20000, 40000))
	rapid.Check(t, func(rt *rapid.T) {
		if pastDeadline() {
			ev.Skip()
			return
		}
		c := genC04(rt)
		o := opts()
		st, v := runSeq(c, o)
		ev.Record(c, st.GCChanged > 0, append(seqClasses(c, st), gcPointClasses(o.Points)...)...)
		if v != nil && attribute(c, v) && ev.Report(v, c) {
			rt.Fatalf("%v", v)
		}
	})
	ev.finish(t)
}
