package checks

import (
	"bytes"
	"encoding/hex"
	"fmt"
	"os"
	"strings"
	"testing"

	"pgregory.net/rapid"
)

// CrashCase is a workload, the crash states to examine and the history to run
// on the recovered store.
type CrashCase struct {
	Seq    SeqCase `json:"seq"`
	Suffix []Op    `json:"suffix"`
	Picks  []int   `json:"picks"` // quick tier: state selectors (modulo the number of states)
	Order  int     `json:"order"` // rotation of the read order after recovery
}

// RecoveryReplay is a self-contained failing crash state: the directory image
// and what may be read from it.
type RecoveryReplay struct {
	Cfg     Config                `json:"cfg"`
	Keys    []KeySpec             `json:"keys"`
	Point   string                `json:"point"`
	Torn    string                `json:"torn"`
	Image   map[string]string     `json:"image_hex"`
	Allowed []map[string][]string `json:"allowed"` // per expectation: digest hex -> allowed values (hex, "-" = absent)
	Ever    map[string][]string   `json:"ever_written"`
	Suffix  []Op                  `json:"suffix"`
	Order   int                   `json:"order"`
	// Workload that produced the image; regression cases re-run it and
	// examine every crash state (the image itself may be unreachable once the
	// defect is repaired).
	Workload *CrashCase `json:"workload,omitempty"`
}

const c03Rule = "rapid-generated sequential workloads (C01 operations, Flush, iteration, primary and index GC cycles with and without unflushed changes and call budgets, Close/reopen through snapshot and rescan) run with a handler on the named points that captures the directory before every file-system step; " +
	"crash states = every captured image + for every single write between two images every byte prefix of the written region (append, create, in-place rewrite = truncate+write, positional overwrite); steps that change more than one thing between two points are counted as hook_gaps. Quick: a few drawn states per workload; thorough: every state of every workload (exhaustive per workload up to a cap), plus states captured inside the recovery open itself (second level); after the post-recovery history the recovered store is flushed and its files copied once more (a second crash after a completed flush), and the copy must hold exactly the model. " +
	"oracle = durability model: OpenStore on the image must succeed; every key reads without error a value it had between the last completed Flush/Close and the operation in progress at the crash (every instant at which the same bytes were on disk must be satisfied), never bytes never written for it; Has/GetSize agree; then a generated suffix (puts, removes, flushes, GC cycles, reopen) must behave exactly like the map model seeded with what was read. " +
	suspRuleText + " (fsck clauses are judged by C07). " + volCrashRuleText + ". " +
	"non-trivial = a state strictly inside an operation (not between operations) of a workload that superseded a flushed key; distinct = distinct (image hash, expectations)"

func genCrashCase(t *rapid.T) CrashCase {
	var c CrashCase
	c.Seq.Cfg = genConfig(t, cfgGenOpts{smallBits: true, smallFiles: true})
	if c.Seq.Cfg.Bits > 12 {
		c.Seq.Cfg.Bits = []uint8{8, 9, 12}[rapid.IntRange(0, 2).Draw(t, "bits")]
	}
	if c.Seq.Cfg.Immutable && weighted(t, "keepImmutable", []int{3, 1}) == 0 {
		c.Seq.Cfg.Immutable = false
	}
	c.Seq.Keys = genKeys(t, c.Seq.Cfg, 2, 8)
	kinds := []string{opPut, opRePut, opGet, opRemove, opFlush, opIter, opCheckAll, opPGC, opIGC, opReopen}
	m := genMix(t, kinds, []int{10, 1, 1, 4, 4, 1, 1, 3, 3, 2})
	c.Seq.Ops = genOps(t, m, len(c.Seq.Keys), c.Seq.Cfg, 3, 30, false)
	ms := genMix(t, kinds, []int{6, 1, 1, 3, 3, 1, 1, 3, 2, 2})
	c.Suffix = genOps(t, ms, len(c.Seq.Keys), c.Seq.Cfg, 0, 10, false)
	if weighted(t, "suffixRebits", []int{3, 1}) == 1 {
		// The recovered store is re-bucketed later on: what the crash left
		// behind must not leak into the new index.
		at := rapid.IntRange(0, len(c.Suffix)).Draw(t, "rebitsAt")
		nb := []int{8, 9, 10, 12, 16}[rapid.IntRange(0, 4).Draw(t, "rebitsTo")]
		c.Suffix = append(append(append([]Op{}, c.Suffix[:at]...), Op{K: opReBits, A: nb}), c.Suffix[at:]...)
	}
	c.Picks = rapid.SliceOfN(rapid.IntRange(0, 1<<20), 6, 6).Draw(t, "picks")
	c.Order = rapid.IntRange(0, 7).Draw(t, "order")
	return c
}

type valueSet struct {
	absent bool
	vals   [][]byte
}

func (vs *valueSet) add(v []byte, present bool) {
	if !present {
		vs.absent = true
		return
	}
	for _, x := range vs.vals {
		if bytes.Equal(x, v) {
			return
		}
	}
	vs.vals = append(vs.vals, v)
}

func (vs *valueSet) has(v []byte, present bool) bool {
	if !present {
		return vs.absent
	}
	for _, x := range vs.vals {
		if bytes.Equal(x, v) {
			return true
		}
	}
	return false
}

func (vs *valueSet) strings() []string {
	var out []string
	if vs.absent {
		out = append(out, "-")
	}
	for _, v := range vs.vals {
		out = append(out, hex.EncodeToString(v))
	}
	return out
}

func valueSetFromStrings(ss []string) *valueSet {
	vs := &valueSet{}
	for _, s := range ss {
		if s == "-" {
			vs.absent = true
			continue
		}
		b, _ := hex.DecodeString(s)
		vs.vals = append(vs.vals, b)
	}
	return vs
}

// buildReplay turns a crash state and the workload's model history into the
// self-contained form that is checked (and saved on failure).
func buildReplay(c CrashCase, st crashState, models []map[string][]byte) RecoveryReplay {
	wl := c
	rp := RecoveryReplay{Cfg: c.Seq.Cfg, Keys: c.Seq.Keys, Point: st.Point, Torn: st.Torn, Image: hexImage(st.Image), Suffix: c.Suffix, Order: c.Order, Ever: map[string][]string{}, Workload: &wl}
	modelAt := func(i int) map[string][]byte {
		if i < 0 {
			return map[string][]byte{}
		}
		if i >= len(models) {
			i = len(models) - 1
		}
		return models[i]
	}
	maxOp := 0
	for _, ex := range st.Expect {
		allowed := map[string][]string{}
		for _, ks := range c.Seq.Keys {
			d := string(ks.Digest)
			vs := &valueSet{}
			for i := ex.DurOp; i <= ex.Op; i++ {
				v, ok := modelAt(i)[d]
				vs.add(v, ok)
			}
			allowed[hex.EncodeToString(ks.Digest)] = vs.strings()
		}
		rp.Allowed = append(rp.Allowed, allowed)
		if ex.Op > maxOp {
			maxOp = ex.Op
		}
	}
	for _, ks := range c.Seq.Keys {
		d := string(ks.Digest)
		vs := &valueSet{}
		for i := 0; i <= maxOp && i < len(models); i++ {
			if v, ok := models[i][d]; ok {
				vs.add(v, true)
			}
		}
		rp.Ever[hex.EncodeToString(ks.Digest)] = vs.strings()
	}
	return rp
}

func crashSite(rp RecoveryReplay) string {
	site := "crash@" + rp.Point
	if rp.Torn != "" {
		// "append index-file 3/20" -> "append index-file"
		f := strings.Fields(rp.Torn)
		if len(f) >= 2 {
			site += "+torn-" + f[0] + "-" + f[1]
		}
	}
	return site
}

// checkRecovery restores the image, opens the store and applies the
// durability oracle and the post-recovery history. If rec is not nil the
// named points passed during the recovery open are captured by it.
func checkRecovery(rp RecoveryReplay, rec *crashRecorder) (v *Violation) {
	dir := newScratch("rec")
	defer os.RemoveAll(dir)
	unhexImage(rp.Image).writeTo(dir)
	site := crashSite(rp)
	sub := &seqRunner{c: SeqCase{Cfg: rp.Cfg, Keys: rp.Keys, Ops: rp.Suffix}, dir: dir, model: map[string][]byte{}, everFlushed: map[string]bool{}}
	sub.stats.GCKinds = map[string]bool{}
	defer func() {
		if sub.s != nil {
			closeQuietly(sub.s)
		}
	}()
	v = guard(-1, "recovery-open", func() *Violation {
		if rec != nil {
			rec.dir = dir
			rec.install()
			defer rec.uninstall()
		}
		s, err := openStore(dir, rp.Cfg)
		if err != nil {
			return viol("recovery-open-fails|"+site+"|"+errClass(err), -1, "OpenStore on the crash image failed: %v", err)
		}
		sub.s = s
		return nil
	})
	if v != nil {
		return v
	}
	v = guard(-1, "recovery-read", func() *Violation {
		n := len(rp.Keys)
		for j := 0; j < n; j++ {
			k := (j + rp.Order) % n
			ks := rp.Keys[k]
			key := ks.Encode(rp.Cfg.Primary, false)
			dh := hex.EncodeToString(ks.Digest)
			got, found, err := sub.s.Get(key)
			if err != nil {
				return viol("recovery-read-error|"+site+"|get:"+errClass(err), -1, "Get(%x) after recovery returned error: %v", ks.Digest, err)
			}
			ever := valueSetFromStrings(rp.Ever[dh])
			for _, allowed := range rp.Allowed {
				vs := valueSetFromStrings(allowed[dh])
				if vs.has(got, found) {
					continue
				}
				sym := "stale-value"
				switch {
				case !found:
					sym = "absent-but-durable"
				case !ever.has(got, true):
					sym = "bytes-never-written"
				case len(vs.vals) == 0:
					sym = "removed-key-back"
				}
				return viol("recovery-"+sym+"|"+site+"|", -1, "after recovery Get(%x) = (%s, found=%v); allowed for this crash instant: %v", ks.Digest, shortBytes(got), found, allowed[dh])
			}
			has, err := sub.s.Has(key)
			if err != nil || has != found {
				return viol("recovery-read-error|"+site+"|has:"+errClass(err), -1, "Has(%x) = (%v, %v) but Get found=%v", ks.Digest, has, err, found)
			}
			size, sfound, err := sub.s.GetSize(key)
			if err != nil || sfound != found || (found && int(size) != len(got)) {
				return viol("recovery-read-error|"+site+"|size:"+errClass(err), -1, "GetSize(%x) = (%d, %v, %v) but Get returned %d bytes, found=%v", ks.Digest, size, sfound, err, len(got), found)
			}
			if found {
				sub.model[string(ks.Digest)] = append([]byte{}, got...)
			}
		}
		return nil
	})
	if v != nil {
		return v
	}
	post := func(inner *Violation) *Violation {
		if inner == nil {
			return nil
		}
		return viol("post-recovery|"+site+"|"+inner.Signature, inner.Step, "on the recovered store: %s", inner.Detail)
	}
	for i, op := range rp.Suffix {
		i, op := i, op
		if v := guard(i, op.K, func() *Violation { return sub.step(i, op) }); v != nil {
			return post(v)
		}
	}
	n := len(rp.Suffix)
	return post(guard(n, "final", func() *Violation {
		if v := sub.checkAll(n, "final"); v != nil {
			return v
		}
		if v := sub.checkIter(n, "final"); v != nil {
			return v
		}
		// The process dies a second time, after a completed flush of the
		// recovered store: whatever recovery left behind in the files must not
		// disturb the next recovery.
		if err := sub.s.Flush(); err != nil {
			return viol("flush-error|final|"+errClass(err), n, "Flush on the recovered store: %v", err)
		}
		if v := secondCrash(readDirImage(dir), rp, sub.model, n); v != nil {
			return v
		}
		s := sub.s
		sub.s = nil
		if err := s.Close(); err != nil {
			return viol("close-error|final|"+errClass(err), n, "Close: %v", err)
		}
		return nil
	}))
}

// secondCrash opens an image taken right after a completed flush and requires
// exactly the model contents.
func secondCrash(img dirImage, rp RecoveryReplay, model map[string][]byte, step int) *Violation {
	dir := newScratch("rec2")
	defer os.RemoveAll(dir)
	img.writeTo(dir)
	s, err := openStore(dir, rp.Cfg)
	if err != nil {
		return viol("second-crash|open|"+errClass(err), step, "the recovered store was flushed and its files copied (second crash); OpenStore on the copy failed: %v", err)
	}
	defer closeQuietly(s)
	for _, ks := range rp.Keys {
		want, present := model[string(ks.Digest)]
		got, found, err := s.Get(ks.Encode(rp.Cfg.Primary, false))
		switch {
		case err != nil:
			return viol("second-crash|get|"+errClass(err), step, "second crash after a completed flush: Get(%x) returned %v", ks.Digest, err)
		case present && !found:
			return viol("second-crash|get|absent-but-durable", step, "second crash after a completed flush of the recovered store: Get(%x) says absent, it was present (%s) at that flush", ks.Digest, shortBytes(want))
		case !present && found:
			return viol("second-crash|get|removed-key-back", step, "second crash after a completed flush of the recovered store: Get(%x) = %s, the key was absent at that flush", ks.Digest, shortBytes(got))
		case present && !bytes.Equal(got, want):
			return viol("second-crash|get|stale-value", step, "second crash after a completed flush of the recovered store: Get(%x) = %s, want %s", ks.Digest, shortBytes(got), shortBytes(want))
		}
	}
	return nil
}

type crashRun struct {
	rec        *crashRecorder
	models     []map[string][]byte
	stats      SeqStats
	workloadOK bool
	specs      []*tornSpec
	total      int
}

// runCrashWorkload executes the workload under the recorder.
func runCrashWorkload(c CrashCase) *crashRun {
	cr := &crashRun{rec: newCrashRecorder("")}
	o := seqOpts{NoFinalIter: true}
	o.OnDir = func(dir string) { cr.rec.dir = dir }
	o.Hook = func(name string) { cr.rec.capture(name, false) }
	o.Before = func(r *seqRunner, i int, op Op) { cr.rec.curOp = i }
	o.After = func(r *seqRunner, i int, op Op, failed bool) *Violation {
		m := make(map[string][]byte, len(r.model))
		for k, v := range r.model {
			m[k] = v
		}
		cr.models = append(cr.models, m)
		cr.rec.capture("op.done", true)
		return nil
	}
	// The final read-back and Close of the runner are part of the workload
	// too: give them an operation index of their own.
	o.Epilogue = func(r *seqRunner, step int) *Violation {
		cr.rec.curOp = step
		m := make(map[string][]byte, len(r.model))
		for k, v := range r.model {
			m[k] = v
		}
		cr.models = append(cr.models, m)
		return nil
	}
	st, v := runSeq(c.Seq, o)
	cr.stats = st
	cr.workloadOK = v == nil
	for i := 0; i+1 < len(cr.rec.snaps); i++ {
		spec, _, ok := cr.rec.step(i)
		if !ok {
			cr.rec.gaps[cr.rec.meta[i].Point+" -> "+cr.rec.meta[i+1].Point]++
			continue
		}
		if spec != nil && spec.count() > 0 {
			cr.specs = append(cr.specs, spec)
		}
	}
	cr.total = len(cr.rec.snaps)
	for _, s := range cr.specs {
		cr.total += s.count()
	}
	return cr
}

// state returns the n-th crash state of the run (point states first).
func (cr *crashRun) state(n int) crashState {
	if n < len(cr.rec.snaps) {
		return cr.rec.pointState(n)
	}
	n -= len(cr.rec.snaps)
	for _, s := range cr.specs {
		if n < s.count() {
			return cr.rec.tornState(s, n)
		}
		n -= s.count()
	}
	panic(infraError{fmt.Errorf("crash state index out of range")})
}

func TestC03(t *testing.T) {
	ev := newEvidence("C03", "fault_enumeration", c03Rule)
	defer ev.Write()
	ev.Assumptions = []string{"process-crash model: completed system calls are durable; power loss and reordering of unsynced writes are out of scope",
		"positional overwrites of at most 4 bytes (GC marks) are treated as atomic"}
	isFsck := func(v *Violation) bool { return strings.HasPrefix(v.Signature, "fsck|") }
	if envReplay != "" && bytes.Contains(readReplayRaw(envReplay).Case, []byte(`"vc_workers"`)) {
		var c VCCase
		readReplay(envReplay, &c)
		for i := 0; i < 30; i++ {
			_, v := runVolCrash(c, false)
			ev.Record(c, true, "volume-crash")
			if v != nil {
				ev.Report(v, c)
				t.Fatalf("replay: %v", v)
			}
		}
		return
	}
	if envReplay != "" && bytes.Contains(readReplayRaw(envReplay).Case, []byte(`"fg"`)) {
		var sc SuspCase
		readReplay(envReplay, &sc)
		for i := 0; i < 10; i++ {
			_, v := runSusp(sc, false)
			ev.Record(sc, true, "suspended-call-crash")
			if v != nil && !isFsck(v) {
				ev.Report(v, sc)
				t.Fatalf("replay: %v", v)
			}
		}
		return
	}
	if envReplay != "" {
		var rp RecoveryReplay
		readReplay(envReplay, &rp)
		for i := 0; i < 5; i++ {
			v := checkRecovery(rp, nil)
			ev.Record(rp, true)
			if v != nil {
				ev.Report(v, rp)
				t.Fatalf("replay: %v", v)
			}
		}
		return
	}
	gaps := map[string]int{}
	workloads, secondLevel, exhaustiveWorkloads, pointsSeen := 0, 0, 0, 0
	stateCap := 6000
	checkState := func(c CrashCase, cr *crashRun, st crashState, second bool) *Violation {
		rp := buildReplay(c, st, cr.models)
		var rec2 *crashRecorder
		if second {
			rec2 = newCrashRecorder("")
		}
		v := checkRecovery(rp, rec2)
		nt := !st.Quiet && cr.stats.removedFlushedSeen()
		cl := []string{"point-state"}
		if st.Torn != "" {
			cl = []string{"torn-" + strings.Fields(st.Torn)[0] + "-" + strings.Fields(st.Torn)[1]}
		}
		if !st.Quiet {
			cl = append(cl, "inside-operation")
		}
		cl = append(cl, "at:"+strings.SplitN(st.Point, ".", 2)[0])
		ev.Record(struct {
			H string
			E []expectation
		}{st.Image.hash(), st.Expect}, nt, cl...)
		if v != nil {
			if ev.Report(v, rp) {
				return v
			}
			return nil
		}
		if rec2 != nil {
			// Second level: the process dies again inside the recovery open.
			for i := 0; i < len(rec2.snaps); i++ {
				st2 := rec2.pointState(i)
				st2.Expect = st.Expect
				st2.Point = st.Point + ">" + st2.Point
				rp2 := buildReplay(c, st2, cr.models)
				secondLevel++
				v2 := checkRecovery(rp2, nil)
				ev.Record(struct {
					H string
					E []expectation
				}{st2.Image.hash(), st2.Expect}, nt, "second-level")
				if v2 != nil && ev.Report(v2, rp2) {
					return v2
				}
			}
		}
		return nil
	}
	explore := func(c CrashCase, exhaustive bool, fatalf func(string, ...any)) {
		cr := runCrashWorkload(c)
		if !cr.workloadOK {
			ev.Class("workload-failed-before-crash(foreign)", 1)
			return
		}
		workloads++
		pointsSeen += cr.rec.points
		for g, n := range cr.rec.gaps {
			gaps[g] += n
		}
		if cr.total == 0 {
			return
		}
		if exhaustive {
			snapBytes := 0
			for _, spec := range cr.specs {
				if tornFileClass(spec.file) == "bucket-snapshot" {
					snapBytes += spec.count()
				}
			}
			all := cr.total-snapBytes <= stateCap
			if all {
				exhaustiveWorkloads++
			}
			for n := 0; n < len(cr.rec.snaps); n++ {
				if v := checkState(c, cr, cr.state(n), n%5 == 3); v != nil {
					fatalf("%v", v)
				}
			}
			for _, spec := range cr.specs {
				cnt := spec.count()
				stride := 1
				// The temporary bucket snapshot is never read before it is
				// complete and renamed: a few offsets suffice. Very long
				// writes are sampled when the workload exceeds the cap.
				if tornFileClass(spec.file) == "bucket-snapshot" {
					stride = cnt/6 + 1
				} else if !all && cnt > 64 {
					stride = cnt/64 + 1
				}
				for j := 0; j < cnt; j += stride {
					if v := checkState(c, cr, cr.rec.tornState(spec, j), false); v != nil {
						fatalf("%v", v)
					}
				}
			}
			return
		}
		for j, p := range c.Picks {
			var st crashState
			if j%2 == 0 || len(cr.specs) == 0 {
				st = cr.state(p % len(cr.rec.snaps)) // a point state
			} else {
				// A torn write: choose the write uniformly, then the offset,
				// so that long uninteresting writes do not dominate.
				spec := cr.specs[p%len(cr.specs)]
				st = cr.rec.tornState(spec, (p/7919)%spec.count())
			}
			if v := checkState(c, cr, st, j == 0); v != nil {
				fatalf("%v", v)
			}
		}
	}
	for _, f := range regressFiles("C03") {
		if bytes.Contains(readReplayRaw(f).Case, []byte(`"fg"`)) {
			var sc SuspCase
			readReplay(f, &sc)
			for i := 0; i < 3; i++ {
				_, v := runSusp(sc, false)
				ev.Record(sc, true, "suspended-call-crash", "regression-case")
				if v != nil && !isFsck(v) && ev.Report(v, sc) {
					t.Fatalf("regression case %s: %v", f, v)
				}
			}
			continue
		}
		var rp RecoveryReplay
		readReplay(f, &rp)
		if rp.Workload == nil {
			continue
		}
		// The flush order inside the store follows Go map iteration: repeat.
		for i := 0; i < 5; i++ {
			explore(*rp.Workload, true, func(f2 string, a ...any) { t.Fatalf("regression case "+f+": "+f2, a...) })
		}
		ev.Class("regression-case", 1)
	}
	setRapidChecks(budget(2400, 600))
	rapid.Check(t, func(rt *rapid.T) {
		if pastDeadline() || os.Getenv("VERIF_FOCUS") == "susp" || os.Getenv("VERIF_FOCUS") == "volcrash" { // the latter: development aids
			ev.Skip()
			return
		}
		explore(genCrashCase(rt), thorough(), rt.Fatalf)
	})
	ev.Extra["workloads"] = workloads
	ev.Extra["workloads_enumerated_exhaustively"] = exhaustiveWorkloads
	ev.Extra["second_level_states"] = secondLevel
	ev.Extra["points_passed"] = pointsSeen
	ng := 0
	for _, n := range gaps {
		ng += n
	}
	ev.Extra["hook_gaps"] = ng
	if ng > 0 {
		var names []string
		for g := range gaps {
			names = append(names, g)
		}
		ev.Extra["hook_gap_sites"] = strings.Join(names, "; ")
	}
	// A crash while a call is suspended between its sub-steps and a flush of
	// another task has completed (suspended.go); fsck clauses are C07's.
	if !t.Failed() && os.Getenv("VERIF_FOCUS") != "volcrash" {
		runSuspCampaign(t, ev, budget(3200, 6000), false, func(v *Violation) bool { return !isFsck(v) })
	}
	// Crash right after a Flush call returned, with free-running writers
	// (volcrash.go): windows without a named point.
	if !t.Failed() {
		runVolCrashCampaign(t, ev, budget(240, 1200), false)
	}
	ev.finish(t)
}

func runVolCrashCampaign(t *testing.T, ev *Evidence, n int, withFsck bool) {
	setRapidChecks(n)
	rapid.Check(t, func(rt *rapid.T) {
		if pastDeadline() {
			ev.Skip()
			return
		}
		c := genVolCrash(rt)
		st, v := runVolCrash(c, withFsck)
		ev.Record(c, st.images >= 2 && st.puts >= 20, "volume-crash")
		ev.Class("volume-crash:images", st.images)
		if v != nil && ev.Report(v, c) {
			rt.Fatalf("%v", v)
		}
	})
}
