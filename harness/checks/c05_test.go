package checks

import (
	"bytes"
	"fmt"
	"os"
	"strings"
	"testing"

	"pgregory.net/rapid"
)

const c05Rule = "2-4 tasks x 1-4 operations (Put, identical re-Put, Get, Has, GetSize, Remove, optionally one Flush task) over a key pool concentrated in 1-2 buckets, after a generated sequential prefix; the cooperative scheduler parks tasks at the named points between the sub-steps of Put/Remove/Get/Has/GetSize/Flush (index lookup, primary check, primary put, index put/update, freelist put, pool swap, log write, bucket-table update) and follows a generated schedule (single long preemption at a drawn point, PCT-style, random walk); a free-running variant (real goroutines, 1 ms periodic flusher) runs the same generator for volume. Sub-campaign (a): single writer per key (writers of different keys of one bucket overlap freely); (b): unrestricted. " +
	"oracle = every call returns without error (key-exists in immutable mode excepted) + porcupine linearizability check against a per-key register with presence, seeded with the prefix contents, with a final sequential read of every key appended (real-time order from logical call/return stamps); " +
	stressRuleText + " (here: collectors off); " +
	"non-trivial = >=2 operations of different tasks overlapping in logical time on keys of one bucket, at least one of them a Put/Remove, with >=1 preemption inside an operation; distinct = distinct canonical JSON of the case"

var c05Points = []string{"index.get.unlocked", "put.indexGot", "put.primaryChecked", "put.primaryPut", "put.indexUpdated", "put.indexed",
	"remove.indexGot", "remove.primaryChecked", "remove.indexRemoved", "remove.done", "get.indexGot", "has.indexGot", "getsize.indexGot",
	"flush.stamped", "mh.flush.swapped", "mh.flush.write", "mh.flush.written", "commit.primaryFlushed", "index.flush.swapped", "index.flush.write", "index.flush.written",
	"commit.indexFlushed", "fl.flush.swapped", "commit.freelistFlushed", "cid.flush.swapped", "cid.flush.write"}

func genConcTasks(t *rapid.T, c *ConcCase, kinds []string, w []int, minTasks, maxTasks, maxOps int) {
	nt := rapid.IntRange(minTasks, maxTasks).Draw(t, "ntasks")
	for ti := 0; ti < nt; ti++ {
		ops := rapid.SliceOfN(rapid.Custom(func(t *rapid.T) Op {
			op := Op{K: kinds[weighted(t, "kind", w)]}
			op.Key = rapid.IntRange(0, len(c.Keys)-1).Draw(t, "key")
			if op.K == opPut || op.K == opRePut {
				op.VLen = []int{0, 1, 3, 8, 20}[weighted(t, "vlen", []int{2, 2, 3, 3, 2})]
				if op.VLen == 0 {
					op.VNil = rapid.Bool().Draw(t, "vnil")
				}
			}
			return op
		}), 1, maxOps).Draw(t, "ops")
		c.Tasks = append(c.Tasks, ops)
	}
}

func genC05(t *rapid.T, free bool) ConcCase {
	var c ConcCase
	c.Cfg = genConfig(t, cfgGenOpts{smallBits: true, smallFiles: true})
	if c.Cfg.Bits > 12 {
		c.Cfg.Bits = 8
	}
	c.Keys = genKeys(t, c.Cfg, 2, 6)
	pk := []string{opPut, opRemove, opFlush}
	pm := genMix(t, pk, []int{5, 1, 2})
	c.Prefix = genOps(t, pm, len(c.Keys), c.Cfg, 0, 8, false)
	c.SingleWriter = weighted(t, "singlewriter", []int{1, 2}) == 1
	kinds := []string{opPut, opGet, opHas, opSize, opRemove}
	genConcTasks(t, &c, kinds, []int{5, 4, 1, 1, 2}, 2, 4, 4)
	if weighted(t, "flushtask", []int{1, 2}) == 1 {
		n := rapid.IntRange(1, 2).Draw(t, "nflush")
		var ops []Op
		for i := 0; i < n; i++ {
			ops = append(ops, Op{K: opFlush})
		}
		c.Tasks = append(c.Tasks, ops)
	}
	c.Free = free
	if !free {
		c.Sched = genSched(t, len(c.Tasks), c05Points)
	}
	return c
}

func concClasses(c ConcCase, st concStats) []string {
	var cl []string
	if c.Free {
		cl = append(cl, "free-running")
	} else {
		cl = append(cl, fmt.Sprintf("sched-kind-%d", c.Sched.Kind))
	}
	if c.SingleWriter {
		cl = append(cl, "single-writer-per-key")
	} else {
		cl = append(cl, "unrestricted-writers")
	}
	if st.overlapSameBucket {
		cl = append(cl, "overlap-same-bucket")
	}
	if st.preempt > 0 {
		cl = append(cl, "preempted-inside-operation")
	}
	if st.hang {
		cl = append(cl, "inconclusive-timeout")
	}
	if st.gcMutated {
		cl = append(cl, "gc-mutated-files")
	}
	if st.gcOverlap {
		cl = append(cl, "gc-overlapped-foreground-call")
	}
	seen := map[string]bool{}
	for _, tp := range st.tuples {
		if !seen[tp] {
			seen[tp] = true
			cl = append(cl, "overlap:"+tp)
		}
	}
	return cl
}

func runConcProperty(t *testing.T, ev *Evidence, gen func(*rapid.T, bool) ConcCase, nt func(ConcCase, concStats) bool, quickSched, thoroughSched, quickFree, thoroughFree int, volumeModes []int, quickVolume, thoroughVolume int) {
	judge := func(v *Violation) *Violation {
		if v != nil && strings.HasPrefix(v.Signature, "foreign-prefix-failure") {
			ev.Class("foreign-prefix-failure", 1)
			return nil
		}
		return v
	}
	if envReplay != "" {
		if raw := readReplayRaw(envReplay); bytes.Contains(raw.Case, []byte(`"workers"`)) {
			var sc StressCase
			readReplay(envReplay, &sc)
			for i := 0; i < 40; i++ {
				st, v := runStress(sc, false)
				ev.Record(sc, true, stressClasses(sc, st)...)
				if v != nil && ev.Report(v, sc) {
					t.Fatalf("replay: %v", v)
				}
			}
			return
		}
		var c ConcCase
		readReplay(envReplay, &c)
		n := 20
		if c.Free {
			n = 300
		}
		for i := 0; i < n; i++ {
			st, v := runConc(c)
			ev.Record(c, true, concClasses(c, st)...)
			if v = judge(v); v != nil && ev.Report(v, c) {
				t.Fatalf("replay: %v", v)
			}
		}
		return
	}
	for _, f := range regressFiles(ev.Property) {
		if raw := readReplayRaw(f); bytes.Contains(raw.Case, []byte(`"workers"`)) {
			continue
		}
		var c ConcCase
		readReplay(f, &c)
		for i := 0; i < 5; i++ {
			st, v := runConc(c)
			ev.Record(c, true, append(concClasses(c, st), "regression-case")...)
			if v = judge(v); v != nil && ev.Report(v, c) {
				t.Fatalf("regression case %s: %v", f, v)
			}
		}
	}
	for _, free := range []bool{false, true} {
		free := free
		if os.Getenv("VERIF_FOCUS") == "volume" { // development aid: only the volume sub-campaign
			break
		}
		if free {
			setRapidChecks(budget(quickFree, thoroughFree))
		} else {
			setRapidChecks(budget(quickSched, thoroughSched))
		}
		rapid.Check(t, func(rt *rapid.T) {
			if pastDeadline() {
				ev.Skip()
				return
			}
			c := gen(rt, free)
			st, v := runConc(c)
			ev.Record(c, nt(c, st), concClasses(c, st)...)
			if v = judge(v); v != nil && ev.Report(v, c) {
				rt.Fatalf("%v", v)
			}
		})
	}
	if !t.Failed() && len(volumeModes) > 0 {
		runStressCampaign(t, ev, volumeModes, budget(quickVolume, thoroughVolume), false)
	}
	ev.finish(t)
}

func TestC05(t *testing.T) {
	ev := newEvidence("C05", "exploration", c05Rule)
	defer ev.Write()
	runConcProperty(t, ev, genC05, func(c ConcCase, st concStats) bool {
		return st.overlapSameBucket && (c.Free || st.preempt > 0)
	}, 10000, 12000, 6000, 12000, []int{stressFlush}, 4000, 8000)
}
