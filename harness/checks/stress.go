package checks

import (
	"bytes"
	"fmt"
	"os"
	"path/filepath"
	"runtime/debug"
	"sync"
	"sync/atomic"
	"testing"
	"time"

	"github.com/ipld/go-storethehash/store"
	"pgregory.net/rapid"
)

// Volume campaign for the concurrent properties: real goroutines, no scheduler
// and no point handler, hundreds to thousands of calls per case. It exists for
// windows that contain no named point (a lock released and re-taken inside one
// function, a value read a little too early or too late), which the
// cooperative scheduler cannot open. The oracle needs no history search:
// every key has exactly one owner task, which is the only one to write or
// read it, so the expected result of every call is known when it is made
// (C05: "a lookup that starts after a Put of its key returned sees that value
// or a later one" - with one writer per key, exactly that value), while the
// tasks still meet in shared buckets, index files and primary files.

const (
	stressFlush      = 0 // collectors off, tight-loop flusher next to the writers
	stressIndexGC    = 1 // CID primary (has no primary collector): index GC cycles every 0.1-1 ms
	stressAppendOnly = 2 // multihash primary with both collectors, keys only ever added (nothing superseded)
	// stressRelocation: a prepared store whose primary files are low-use, one
	// or two explicit primary GC cycles that relocate their survivors, and
	// goroutines that put brand-new keys into the same buckets meanwhile. No
	// flush happens during the concurrent phase, so nothing is reclaimed under
	// a caller (the recorded finding KF-C06 needs a flush and a second cycle).
	stressRelocation = 3
)

// StressCase is a free-running volume case with exclusive key ownership.
type StressCase struct {
	Mode    int       `json:"mode"`
	Cfg     Config    `json:"cfg"`
	Keys    []KeySpec `json:"keys"`    // key i is owned by worker i % len(Workers)
	Workers [][]Op    `json:"workers"` // op.Key indexes the worker's own keys
	Rounds  int       `json:"rounds"`
	Flusher int       `json:"flusher"` // 0 periodic flusher only, 1 tight loop of Flush calls, 2 Flush every ~100us
	SyncUS  int       `json:"sync_us"`
	GCUS    int       `json:"gc_us"` // 0: collectors off
	// GCLimitUS: time limit of the periodic collectors' cycles (0 = none), so
	// that cycles are cut short by the clock and resumed by the next tick.
	GCLimitUS int `json:"gc_limit_us,omitempty"`
}

type stressStats struct {
	calls        int64
	flushes      int64
	sharedBucket bool
}

const stressRuleText = "Volume sub-campaign (free-running, no scheduler, no point handler): 4-8 goroutines x 10-100 rounds of a drawn list of Put/Remove/Get/Has/GetSize calls, each goroutine the only user of its own keys (keys of different goroutines share buckets, index files and primary files), next to a tight-loop or ~100us Flush caller and the store's periodic flusher; 8..20 index bits, index files of 16 bytes..4 KiB; oracle = the result of every call is exactly what the owner's own sequential model says, a final read of every key, the same after close/reopen, again after reopening without the saved bucket table (index rescan), and the independent fsck of the closed directory"

func genStress(t *rapid.T, mode int) StressCase {
	if mode == stressRelocation {
		c := StressCase{Mode: mode}
		c.Cfg = Config{Primary: store.MultihashPrimary, Bits: 8, FileCache: []int{0, 2, 512}[rapid.IntRange(0, 2).Draw(t, "filecache")]}
		c.Cfg.PrimSize = []uint32{256, 1024, 4096}[rapid.IntRange(0, 2).Draw(t, "relocprim")]
		c.Cfg.IdxSize = []uint32{256, 4096, 0}[rapid.IntRange(0, 2).Draw(t, "relocidx")]
		// One or two buckets: Keys[0..1] only carry the bucket bytes.
		base := rapid.SliceOfN(rapid.Byte(), 4, 4).Draw(t, "base")
		c.Keys = []KeySpec{{Digest: append([]byte{}, base...)}}
		if rapid.Bool().Draw(t, "twobuckets") {
			b2 := append([]byte{}, base...)
			b2[0] ^= 0x21
			c.Keys = append(c.Keys, KeySpec{Digest: b2})
		}
		c.Rounds = rapid.IntRange(60, 400).Draw(t, "prefixrecords")
		nw := rapid.IntRange(1, 4).Draw(t, "workers")
		c.Workers = make([][]Op, nw)
		c.GCUS = []int{50, 85, 100}[rapid.IntRange(0, 2).Draw(t, "lowuse")] // reused: low-use threshold of the cycles
		c.SyncUS = rapid.IntRange(1, 2).Draw(t, "cycles")                   // reused: number of cycles
		return c
	}
	c := StressCase{Mode: mode}
	c.Cfg = genConfig(t, cfgGenOpts{smallBits: true, smallFiles: true})
	c.Cfg.Immutable = false
	bitW := []int{8, 1, 1, 1, 0}
	if mode != stressFlush {
		bitW = []int{8, 1, 1, 2, 2}
	}
	c.Cfg.Bits = []uint8{8, 9, 12, 16, 20}[weighted(t, "stressbits", bitW)]
	c.Cfg.IdxSize = []uint32{16, 33, 64, 100, 256, 1024, 4096}[weighted(t, "stressidx", []int{2, 2, 3, 2, 2, 2, 1})]
	c.Cfg.PrimSize = []uint32{64, 256, 1024, 4096, 0}[rapid.IntRange(0, 4).Draw(t, "stressprim")]
	switch mode {
	case stressIndexGC:
		c.Cfg.Primary = store.CIDPrimary
	case stressAppendOnly:
		c.Cfg.Primary = store.MultihashPrimary
	}
	c.Keys = genKeys(t, c.Cfg, 16, 64)
	nw := rapid.IntRange(4, 8).Draw(t, "workers")
	kinds := []string{opPut, opRemove, opGet, opHas, opSize}
	w := []int{6, 2, 3, 1, 1}
	if mode == stressAppendOnly {
		w = []int{6, 0, 3, 1, 1}
	}
	for i := 0; i < nw; i++ {
		ops := rapid.SliceOfN(rapid.Custom(func(t *rapid.T) Op {
			op := Op{K: kinds[weighted(t, "kind", w)]}
			op.Key = rapid.IntRange(0, 15).Draw(t, "key")
			if op.K == opPut {
				op.VLen = []int{3, 5, 8, 20, 60}[rapid.IntRange(0, 4).Draw(t, "vlen")]
			}
			return op
		}), 3, 10).Draw(t, "ops")
		c.Workers = append(c.Workers, ops)
	}
	c.Rounds = rapid.IntRange(10, 100).Draw(t, "rounds")
	c.Flusher = weighted(t, "flusher", []int{1, 5, 2})
	c.SyncUS = []int{200, 1000, 5000}[rapid.IntRange(0, 2).Draw(t, "sync")]
	if mode != stressFlush {
		c.GCUS = []int{100, 300, 1000}[rapid.IntRange(0, 2).Draw(t, "gc")]
		c.GCLimitUS = []int{0, 20, 100, 500}[weighted(t, "gclimit", []int{3, 1, 1, 1})]
	}
	return c
}

func stressClasses(c StressCase, st stressStats) []string {
	cl := []string{"volume", fmt.Sprintf("volume-mode-%d", c.Mode), fmt.Sprintf("volume-flusher-%d", c.Flusher), fmt.Sprintf("volume-bits-%d", c.Cfg.Bits)}
	if st.sharedBucket {
		cl = append(cl, "volume-owners-share-a-bucket")
	}
	return cl
}

type stressOwner struct {
	keys  [][]byte
	names []int // index into c.Keys
	model map[int][]byte
}

func runStress(c StressCase, fsckOnly bool) (st stressStats, v *Violation) {
	if c.Mode == stressRelocation {
		return runRelocStress(c, fsckOnly)
	}
	dir := newScratch("stress")
	defer os.RemoveAll(dir)
	gcI := time.Duration(c.GCUS) * time.Microsecond
	s, err := openStore(dir, c.Cfg, store.GCInterval(gcI), store.GCTimeLimit(time.Duration(c.GCLimitUS)*time.Microsecond), store.SyncInterval(time.Duration(c.SyncUS)*time.Microsecond))
	if err != nil {
		panic(infraError{err})
	}
	nw := len(c.Workers)
	owners := make([]*stressOwner, nw)
	for w := range owners {
		owners[w] = &stressOwner{model: map[int][]byte{}}
	}
	bucketOwner := map[uint32]int{}
	for i, k := range c.Keys {
		o := owners[i%nw]
		o.keys = append(o.keys, k.Encode(c.Cfg.Primary, false))
		o.names = append(o.names, i)
		b := bucketOf(k.Digest, c.Cfg.Bits)
		if prev, ok := bucketOwner[b]; ok && prev != i%nw {
			st.sharedBucket = true
		}
		bucketOwner[b] = i % nw
	}
	var first atomic.Pointer[Violation]
	fail := func(v *Violation) { first.CompareAndSwap(nil, v) }
	var calls, flushes atomic.Int64
	s.Start()
	stopFlusher := make(chan struct{})
	flusherDone := make(chan struct{})
	go func() {
		defer close(flusherDone)
		defer func() {
			if r := recover(); r != nil {
				fail(stressPanic("flush", r))
			}
		}()
		if c.Flusher == 0 {
			return
		}
		for {
			select {
			case <-stopFlusher:
				return
			default:
			}
			if err := s.Flush(); err != nil {
				fail(viol("volume-error|flush|"+errClass(err), 0, "Flush next to the workers returned %v", err))
				return
			}
			flushes.Add(1)
			if c.Flusher == 2 {
				time.Sleep(100 * time.Microsecond)
			}
		}
	}()
	var wg sync.WaitGroup
	for w := range c.Workers {
		w := w
		o := owners[w]
		if len(o.keys) == 0 {
			continue
		}
		wg.Add(1)
		go func() {
			defer wg.Done()
			defer func() {
				if r := recover(); r != nil {
					fail(stressPanic("worker", r))
				}
			}()
			for r := 0; r < c.Rounds; r++ {
				for i, op := range c.Workers[w] {
					if first.Load() != nil {
						return
					}
					ki := op.Key % len(o.keys)
					if v := stressCall(s, c, o, ki, op, w*1000003+r*101+i, r*100+i); v != nil {
						fail(v)
						return
					}
					calls.Add(1)
				}
			}
		}()
	}
	// Wait for the workers; a run in which no call completes for several
	// seconds is stuck (a deadlock, or a lock left behind by a panic).
	fin := make(chan struct{})
	go func() { wg.Wait(); close(fin) }()
	stuck := false
	last, lastChange := int64(-1), time.Now()
wait:
	for {
		select {
		case <-fin:
			break wait
		case <-time.After(200 * time.Millisecond):
		}
		if n := calls.Load() + flushes.Load(); n != last {
			last, lastChange = n, time.Now()
		} else if time.Since(lastChange) > 10*time.Second {
			stuck = true
			break wait
		}
	}
	close(stopFlusher)
	if !stuck {
		select {
		case <-flusherDone:
		case <-time.After(10 * time.Second):
			stuck = true
		}
	}
	st.calls, st.flushes = calls.Load(), flushes.Load()
	if stuck {
		v = first.Load()
		if v == nil {
			v = viol("volume-stuck|workers|no-call-completes", 0, "no call of any worker or of the flusher completed for 10 s; goroutines:\n%s", moduleStacks())
		}
		go closeQuietly(s)
		return st, v
	}
	if fsckOnly {
		// C07: only the agreement of the files in the quiescent state after
		// Close is judged here; what the calls returned is C05/C06's business.
		if first.Load() == nil {
			s.Flush()
		}
		closeQuietly(s)
		if _, clause, detail := fsck(fsckInput{Dir: dir, Cfg: c.Cfg, UseSnap: true}); clause != "" {
			return st, viol("fsck|volume-after-close|"+clause, 0, "%s", detail)
		}
		return st, nil
	}
	if v = first.Load(); v != nil {
		closeQuietly(s)
		return st, v
	}
	readAll := func(s *store.Store, phase string) *Violation {
		return guard(0, "volume-"+phase, func() *Violation {
			for _, o := range owners {
				for ki := range o.keys {
					if v := stressRead(s, c, o, ki, phase, 0); v != nil {
						return v
					}
				}
			}
			return nil
		})
	}
	if v = readAll(s, "final"); v != nil {
		closeQuietly(s)
		return st, v
	}
	if err := s.Flush(); err != nil {
		closeQuietly(s)
		return st, viol("volume-error|final-flush|"+errClass(err), 0, "final Flush returned %v", err)
	}
	if err := s.Close(); err != nil {
		return st, viol("volume-error|close|"+errClass(err), 0, "Close returned %v", err)
	}
	for _, phase := range []string{"after-reopen", "after-rescan"} {
		if phase == "after-rescan" {
			os.Remove(filepath.Join(dir, idxBase+".buckets"))
		}
		s2, err := openStore(dir, c.Cfg)
		if err != nil {
			return st, viol("volume-error|"+phase+"|open-"+errClass(err), 0, "reopening the directory (%s) failed: %v", phase, err)
		}
		v = readAll(s2, phase)
		closeQuietly(s2)
		if v != nil {
			return st, v
		}
	}
	if _, clause, detail := fsck(fsckInput{Dir: dir, Cfg: c.Cfg, UseSnap: true}); clause != "" {
		return st, viol("fsck|volume|"+clause, 0, "%s", detail)
	}
	return st, nil
}

func stressPanic(what string, r interface{}) *Violation {
	if ie, ok := r.(infraError); ok {
		panic(ie)
	}
	site := repoPanicSite(string(debug.Stack()))
	if site == "" {
		panic(r)
	}
	return viol("panic|volume-"+what+"|"+site, 0, "panic in %s: %v", site, r)
}

func moduleStacks() string {
	var b bytes.Buffer
	for _, g := range moduleGoroutines() {
		fmt.Fprintf(&b, "goroutine %d [%s]\n%s\n", g.id, g.state, g.stack)
		if b.Len() > 6000 {
			break
		}
	}
	return b.String()
}

// stressCall performs one call of an owner on one of its keys and compares
// the result with the owner's model.
func stressCall(s *store.Store, c StressCase, o *stressOwner, ki int, op Op, valueSeed, step int) *Violation {
	key := o.keys[ki]
	name := o.names[ki]
	cur, present := o.model[ki]
	switch op.K {
	case opPut:
		if c.Mode == stressAppendOnly && present {
			return stressRead(s, c, o, ki, "get", step)
		}
		val := valueFor(valueSeed, op.VLen, false)
		if err := s.Put(key, val); err != nil {
			return viol("volume-error|put|"+errClass(err), step, "Put(key %d) by its only writer returned %v", name, err)
		}
		o.model[ki] = val
	case opRemove:
		ok, err := s.Remove(key)
		if err != nil {
			return viol("volume-error|rm|"+errClass(err), step, "Remove(key %d) by its only writer returned %v", name, err)
		}
		if ok != present {
			return viol(fmt.Sprintf("volume-wrong-result|rm|removed-%v-present-%v", ok, present), step, "Remove(key %d) returned %v, but its only writer had it present=%v (value %s)", name, ok, present, shortBytes(cur))
		}
		delete(o.model, ki)
	case opHas:
		has, err := s.Has(key)
		if err != nil {
			return viol("volume-error|has|"+errClass(err), step, "Has(key %d) returned %v", name, err)
		}
		if has != present {
			return viol(fmt.Sprintf("volume-wrong-result|has|%v-want-%v", has, present), step, "Has(key %d) = %v, its only writer has present=%v", name, has, present)
		}
	case opSize:
		sz, found, err := s.GetSize(key)
		if err != nil {
			return viol("volume-error|size|"+errClass(err), step, "GetSize(key %d) returned %v", name, err)
		}
		if found != present || (present && int(sz) != len(cur)) {
			return viol(fmt.Sprintf("volume-wrong-result|size|found-%v-want-%v", found, present), step, "GetSize(key %d) = (%d, %v), its only writer has present=%v len=%d", name, sz, found, present, len(cur))
		}
	default:
		return stressRead(s, c, o, ki, "get", step)
	}
	return nil
}

func stressRead(s *store.Store, c StressCase, o *stressOwner, ki int, phase string, step int) *Violation {
	name := o.names[ki]
	cur, present := o.model[ki]
	got, found, err := s.Get(o.keys[ki])
	if err != nil {
		return viol("volume-error|"+phase+"|"+errClass(err), step, "Get(key %d) [%s] returned %v; its only writer has present=%v", name, phase, err, present)
	}
	switch {
	case present && !found:
		return viol("volume-lost-key|"+phase+"|absent", step, "Get(key %d) [%s] says absent, but the last call of its only writer was a successful Put of %s", name, phase, shortBytes(cur))
	case !present && found:
		return viol("volume-resurrected-key|"+phase+"|present", step, "Get(key %d) [%s] = %s, but its only writer removed it (or never put it)", name, phase, shortBytes(got))
	case present && !bytes.Equal(got, cur):
		return viol("volume-wrong-value|"+phase+"|other-value", step, "Get(key %d) [%s] = %s, its only writer last put %s", name, phase, shortBytes(got), shortBytes(cur))
	}
	return nil
}

// runStressCampaign draws and runs volume cases of the given modes.
func runStressCampaign(t *testing.T, ev *Evidence, modes []int, n int, fsckOnly bool) {
	setRapidChecks(n)
	rapid.Check(t, func(rt *rapid.T) {
		if pastDeadline() {
			ev.Skip()
			return
		}
		c := genStress(rt, modes[rapid.IntRange(0, len(modes)-1).Draw(rt, "mode")])
		st, v := runStress(c, fsckOnly)
		ev.Record(c, st.sharedBucket && (c.Mode == stressRelocation || st.calls > 50 && (c.Flusher > 0 || c.GCUS > 0)), stressClasses(c, st)...)
		if v != nil && ev.Report(v, c) {
			rt.Fatalf("%v", v)
		}
	})
}

// runRelocStress: see stressRelocation. Keys are generated on the fly: the
// bucket bytes of c.Keys[i], an owner byte, a counter, padded to 10 bytes
// (equal length, hence prefix-free).
func runRelocStress(c StressCase, fsckOnly bool) (st stressStats, v *Violation) {
	dir := newScratch("reloc")
	defer os.RemoveAll(dir)
	s, err := openStore(dir, c.Cfg)
	if err != nil {
		panic(infraError{err})
	}
	mp := mhPrimaryOf(s)
	if mp == nil {
		panic(infraError{fmt.Errorf("relocation stress needs the multihash primary")})
	}
	mkKey := func(owner, n int) []byte {
		b := c.Keys[n%len(c.Keys)].Digest
		d := []byte{b[0], b[1], b[2], b[3], byte(owner), byte(n), byte(n >> 8), byte(n >> 16), 0x5a, 0xa5}
		return KeySpec{Digest: d, Code: 0x00}.Encode(c.Cfg.Primary, false)
	}
	type kv struct {
		key []byte
		val []byte
	}
	var expect []kv     // must be present with this value
	var absent [][]byte // must be absent
	// Prefix: records, three of four removed, everything flushed.
	for i := 0; i < c.Rounds; i++ {
		k, val := mkKey(0xff, i), valueFor(i, 40+i%37, false)
		if err := s.Put(k, val); err != nil {
			closeQuietly(s)
			return st, nil // C01's subject
		}
		if i%4 == 0 {
			expect = append(expect, kv{k, val})
		} else {
			absent = append(absent, k)
		}
	}
	if err := s.Flush(); err != nil {
		closeQuietly(s)
		return st, nil
	}
	for _, k := range absent {
		s.Remove(k)
	}
	if err := s.Flush(); err != nil {
		closeQuietly(s)
		return st, nil
	}
	pc := newPointCounter()
	pc.install()
	var first atomic.Pointer[Violation]
	gcDone := make(chan struct{})
	var wg sync.WaitGroup
	puts := make([][]kv, len(c.Workers))
	for w := range c.Workers {
		w := w
		wg.Add(1)
		go func() {
			defer wg.Done()
			defer func() {
				if r := recover(); r != nil {
					first.CompareAndSwap(nil, stressPanic("worker", r))
				}
			}()
			for n := 0; n < 20000; n++ {
				select {
				case <-gcDone:
					if n > 50 {
						return
					}
				default:
				}
				k, val := mkKey(w, n), valueFor(w*100000+n, 3+n%9, false)
				if err := s.Put(k, val); err != nil {
					first.CompareAndSwap(nil, viol("volume-error|put|"+errClass(err), n, "Put of a new key next to a relocating GC cycle returned %v", err))
					return
				}
				puts[w] = append(puts[w], kv{k, val})
			}
		}()
	}
	func() {
		defer close(gcDone)
		defer func() {
			if r := recover(); r != nil {
				first.CompareAndSwap(nil, stressPanic("gc", r))
			}
		}()
		for i := 0; i < c.SyncUS; i++ {
			mp.GC(bg, int64(c.GCUS)) // an error return of a cycle is not a violation
		}
	}()
	wg.Wait()
	pc.uninstall()
	relocs := pc.get("pgc.reap.relocate")
	st.calls = int64(relocs)
	st.sharedBucket = relocs > 0
	for _, p := range puts {
		st.flushes += int64(len(p))
		expect = append(expect, p...)
	}
	if v = first.Load(); v != nil && !fsckOnly {
		closeQuietly(s)
		return st, v
	}
	check := func(s *store.Store, phase string) *Violation {
		return guard(0, "volume-"+phase, func() *Violation {
			for _, e := range expect {
				got, found, err := s.Get(e.key)
				switch {
				case err != nil:
					return viol("volume-error|"+phase+"|"+errClass(err), 0, "Get of a key that was put without error returned %v [%s]", err, phase)
				case !found:
					return viol("volume-lost-key|"+phase+"|absent", 0, "key %x was put without error and never removed (%d relocations ran meanwhile) but is not found [%s]", e.key, relocs, phase)
				case !bytes.Equal(got, e.val):
					return viol("volume-wrong-value|"+phase+"|other-value", 0, "key %x reads %s, was put as %s [%s]", e.key, shortBytes(got), shortBytes(e.val), phase)
				}
			}
			for _, k := range absent {
				if _, found, err := s.Get(k); err == nil && found {
					return viol("volume-resurrected-key|"+phase+"|present", 0, "key %x was removed and flushed before the GC cycle but is found [%s]", k, phase)
				}
			}
			return nil
		})
	}
	if !fsckOnly {
		if v = check(s, "final"); v != nil {
			closeQuietly(s)
			return st, v
		}
	}
	s.Flush()
	closeQuietly(s)
	if fsckOnly {
		if _, clause, detail := fsck(fsckInput{Dir: dir, Cfg: c.Cfg, UseSnap: true}); clause != "" {
			return st, viol("fsck|volume-after-close|"+clause, 0, "%s", detail)
		}
		return st, nil
	}
	for _, phase := range []string{"after-reopen", "after-rescan"} {
		if phase == "after-rescan" {
			os.Remove(filepath.Join(dir, idxBase+".buckets"))
		}
		s2, err := openStore(dir, c.Cfg)
		if err != nil {
			return st, viol("volume-error|"+phase+"|open-"+errClass(err), 0, "reopening the directory (%s) failed: %v", phase, err)
		}
		v = check(s2, phase)
		closeQuietly(s2)
		if v != nil {
			return st, v
		}
	}
	return st, nil
}
