package checks

import (
	"testing"

	"pgregory.net/rapid"
)

var c01Kinds = []string{opPut, opRePut, opGet, opHas, opSize, opRemove, opFlush, opIter, opCheckAll}
var c01MaxW = []int{8, 2, 4, 2, 2, 4, 3, 1, 2}

func genC01(t *rapid.T, bigBits bool) SeqCase {
	var c SeqCase
	c.Cfg = genConfig(t, cfgGenOpts{smallBits: !bigBits})
	if bigBits {
		c.Cfg.Bits = []uint8{20, 22, 24}[rapid.IntRange(0, 2).Draw(t, "bigbits")]
	}
	c.Keys = genKeys(t, c.Cfg, 2, 10)
	m := genMix(t, c01Kinds, c01MaxW)
	c.Ops = genOps(t, m, len(c.Keys), c.Cfg, 2, 60, true)
	return c
}

const c01Rule = "rapid-generated histories of Put/rePut/Get/Has/GetSize/Remove/Flush/Iterate/CheckAll on one open store over a key pool built to share buckets and prefixes, random legal configuration; " +
	"non-trivial = two put keys share a bucket and >=1 byte after the bucket prefix AND >=1 overwrite/removal of a present key (or rejected put in immutable mode) AND a read after a flush; distinct = distinct canonical JSON of the case"

func ntC01(st SeqStats) bool {
	return st.SharedPrefixPair && (st.Supersede > 0 || st.Rejected > 0) && st.ReadAfterFlush
}

func seqClasses(c SeqCase, st SeqStats) []string {
	var cl []string
	cl = append(cl, "primary="+c.Cfg.Primary)
	if c.Cfg.Immutable {
		cl = append(cl, "immutable")
	}
	if c.Cfg.StartPrim > 0 || c.Cfg.StartIdx > 0 {
		cl = append(cl, "positions-beyond-32-bits")
	}
	if st.SharedPrefixPair {
		cl = append(cl, "shared-prefix-pair")
	}
	if st.Supersede > 0 {
		cl = append(cl, "supersede")
	}
	if st.ReadAfterFlush {
		cl = append(cl, "read-after-flush")
	}
	if st.IndexFiles > 1 {
		cl = append(cl, "index-rollover")
	}
	if st.PrimaryFiles > 1 {
		cl = append(cl, "primary-rollover")
	}
	if st.EmptyValues > 0 {
		cl = append(cl, "empty-value")
	}
	if c.Cfg.Bits >= 20 {
		cl = append(cl, "bits>=20")
	}
	if st.Reopens[0] > 0 {
		cl = append(cl, "reopen-snapshot")
	}
	if st.Reopens[1] > 0 {
		cl = append(cl, "reopen-rescan")
	}
	if st.Reopens[2] > 0 {
		cl = append(cl, "reopen-unusable-snapshot")
	}
	if st.ReopenAfterWork {
		cl = append(cl, "reopen-after-work")
	}
	if st.GCChanged > 0 {
		cl = append(cl, "gc-changed-disk")
	}
	if st.GCInterrupted > 0 {
		cl = append(cl, "gc-interrupted")
	}
	if st.GCWithUnflushed > 0 {
		cl = append(cl, "gc-with-unflushed")
	}
	if st.ReadAfterGC {
		cl = append(cl, "read-after-gc")
	}
	for _, e := range st.GCErrors {
		cl = append(cl, "gc-cycle-returned-error: "+e)
	}
	return cl
}

func TestC01(t *testing.T) {
	ev := newEvidence("C01", "exploration", c01Rule)
	defer ev.Write()
	if replaySeq(t, ev, seqOpts{}) {
		return
	}
	regressSeq(t, ev, seqOpts{})
	prop := func(bigBits bool) func(rt *rapid.T) {
		return func(rt *rapid.T) {
			if pastDeadline() {
				ev.Skip()
				return
			}
			c := genC01(rt, bigBits)
			st, v := runSeq(c, seqOpts{})
			ev.Record(c, ntC01(st), seqClasses(c, st)...)
			if v != nil && ev.Report(v, c) {
				rt.Fatalf("%v", v)
			}
		}
	}
	setRapidChecks(budget(60000, 150000))
	rapid.Check(t, prop(false))
	if thorough() && envShard < 4 {
		setRapidChecks(10)
		rapid.Check(t, prop(true))
	}
	ev.finish(t)
}

// replaySeq replays a saved sequential case if VERIF_REPLAY is set.
func replaySeq(t *testing.T, ev *Evidence, o seqOpts) bool {
	if envReplay == "" {
		return false
	}
	var c SeqCase
	readReplay(envReplay, &c)
	// Flush order inside the store follows Go map iteration; repeat.
	for i := 0; i < 20; i++ {
		st, v := runSeq(c, o)
		ev.Record(c, true, seqClasses(c, st)...)
		if v != nil {
			ev.Report(v, c)
			t.Fatalf("replay: %v", v)
		}
	}
	return true
}

// regressSeq runs the curated regression cases of the property first.
func regressSeq(t *testing.T, ev *Evidence, o seqOpts) {
	for _, f := range regressFiles(ev.Property) {
		var c SeqCase
		readReplay(f, &c)
		for i := 0; i < 3; i++ {
			st, v := runSeq(c, o)
			ev.Record(c, true, append(seqClasses(c, st), "regression-case")...)
			if v != nil && ev.Report(v, c) {
				t.Fatalf("regression case %s: %v", f, v)
			}
		}
	}
}
