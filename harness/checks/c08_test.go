package checks

import (
	"bytes"
	"context"
	"errors"
	"fmt"
	"os"
	"path/filepath"
	"strings"
	"testing"

	"github.com/ipld/go-storethehash/store/filecache"
	"github.com/ipld/go-storethehash/store/index"
	"github.com/ipld/go-storethehash/store/primary/inmemory"
	"github.com/ipld/go-storethehash/store/types"
	"pgregory.net/rapid"
)

// RLOp is one index-level operation on a key of the universe.
type RLOp struct {
	K   string `json:"k"` // set (Put if absent, Update if present), reput (Put even if present), rm (Remove if present), flush
	Key int    `json:"key,omitempty"`
}

// RLCase is a sequence of index operations on keys of one bucket.
type RLCase struct {
	Bits  uint8      `json:"bits"`
	Tails []HexBytes `json:"tails"` // key = bucket bytes + tail; equal lengths, distinct
	Ops   []RLOp     `json:"ops"`
	// Sparse: bulk cases (hundreds of keys in the bucket) run the oracle only
	// after flush and evict operations and at the end.
	Sparse bool `json:"sparse,omitempty"`
	// Boundary d (1..4): the case runs in an index of its own whose file-size
	// limit is d bytes above the length the index file has when the flush
	// operation at index BoundaryAt begins (measured in a first pass with an
	// unlimited file), so that the record list written by that flush starts
	// within the last four bytes below the limit: its bucket position then
	// lies at or beyond the limit although the list belongs to that file.
	Boundary   int `json:"boundary,omitempty"`
	BoundaryAt int `json:"boundary_at,omitempty"`
}

const c08Rule = "index.Index over the in-memory primary; caller contract as the store keeps it (Put only for absent keys, Update/Remove only for present keys; equal-length distinct keys of one bucket). " +
	"Exhaustive part: universe {bucket} x S^3 with |S|=2: every ordered insertion of up to 5 (quick) / 6 (thorough) distinct keys followed by every single re-point, removal or further insertion, under three flush placements (never, after every op, once before the last op); |S|=3: all ordered insertions of up to 3 (quick) / 4 (thorough) keys. Random part: rapid sequences of <=80 set/remove/flush over alphabets of 2..256 symbols, key lengths 4..40, bits 8/9/16, with an operation that pushes the bucket out of the in-memory pools (two flushes carrying other buckets) so that it is read from disk afterwards, and an operation during which the read of a stored key from the primary fails once (a call that returns that error must leave the list exactly as it was); bulk part: 150-450 keys in the bucket (record lists of several KiB), flushed, pushed out, then read / re-pointed / removed from disk (oracle after flush and push-out operations and at the end); boundary part: random cases run in an index of their own whose file-size limit is 1-4 bytes above the file length measured (first pass, unlimited file) before a drawn flush, so that the record list written by that flush starts within the last four bytes below the limit, followed by a push-out. " +
	"oracle after EVERY operation: each present key resolves to its latest location; each absent key of the universe resolves to nothing or to the location of a present key; the decoded record list is strictly sorted, pairwise prefix-free, has one entry per present key, every stored prefix is a prefix of the key owning that location; Update changed only the addressed entry's location and Remove removed only the addressed entry. " +
	"non-trivial = a list of >=3 entries in which a stored prefix was lengthened by a later insertion; distinct = distinct operation sequence"

type c08Env struct {
	dir     string
	bits    uint8
	idx     *index.Index
	prim    *inmemory.InMemory
	next    uint32
	fileMax uint32
	// evictSeq makes the keys written into neighbouring buckets unique.
	evictSeq uint32
	// beforeFlushOp is called with the operation index before a flush operation.
	beforeFlushOp func(i int)
	// failNext > 0: the next read of a key from the primary fails (once).
	failNext int
}

var errInjectedRead = errors.New("injected transient read error")

// faultyPrim is the in-memory primary with one injectable fault: the read of
// a stored key (the only primary call Index.Put and Update make) fails while
// the environment's failNext is set.
type faultyPrim struct {
	*inmemory.InMemory
	env *c08Env
}

func (p faultyPrim) GetIndexKey(blk types.Block) ([]byte, error) {
	if p.env.failNext > 0 {
		p.env.failNext--
		return nil, errInjectedRead
	}
	return p.InMemory.GetIndexKey(blk)
}

func newC08Env(bits uint8) *c08Env {
	e := &c08Env{bits: bits, fileMax: 1 << 20}
	e.reset()
	return e
}

func (e *c08Env) reset() {
	e.close()
	e.dir = newScratch("rl")
	e.prim = inmemory.New(nil)
	idx, err := index.Open(context.Background(), filepath.Join(e.dir, "idx"), faultyPrim{e.prim, e}, e.bits, e.fileMax, 0, 0, filecache.New(8))
	if err != nil {
		panic(infraError{err})
	}
	e.idx = idx
	e.next = 0
}

func (e *c08Env) close() {
	if e.idx != nil {
		e.idx.Close()
		e.idx = nil
	}
	if e.dir != "" {
		os.RemoveAll(e.dir)
	}
}

// freshBucket returns the leading key bytes of a bucket not used before in
// this index, and the bucket number. Bits above the whole stripped bytes are
// part of the bucket choice, so all keys built on the returned lead share
// the bucket.
func (e *c08Env) freshBucket() ([]byte, uint32) {
	if e.next >= 1<<e.bits-2 || len(*e.prim) > 2_000_000 { // the last two buckets are reserved (see "evict")
		e.reset()
	}
	b := e.next
	e.next++
	lead := []byte{byte(b), byte(b >> 8), byte(b >> 16), byte(b >> 24)}
	return lead[:(int(e.bits)+7)/8], b
}

type rlEntry struct {
	key []byte
	loc types.Block
}

func decodeRL(data []byte) ([]rlEntry, error) {
	ents, bad := parseEntries(data)
	if bad != "" {
		return nil, fmt.Errorf("%s", bad)
	}
	out := make([]rlEntry, len(ents))
	for i, e := range ents {
		out[i] = rlEntry{e.Key, types.Block{Offset: types.Position(e.Offset), Size: types.Size(e.Size)}}
	}
	return out, nil
}

type rlStats struct {
	evicted    bool
	boundary   bool
	faultHit   bool
	maxLen     int
	lengthened bool
}

// runRL executes a case in a fresh bucket of env.
func runRL(e *c08Env, c RLCase) (st rlStats, v *Violation) {
	lead, bucket := e.freshBucket()
	strip := int(e.bits / 8)
	keys := make([][]byte, len(c.Tails))
	for i, t := range c.Tails {
		keys[i] = append(append([]byte{}, lead...), t...)
		for len(keys[i]) < 4 {
			panic(infraError{fmt.Errorf("key shorter than 4 bytes")})
		}
	}
	present := map[int]types.Block{}
	owner := map[types.Block]int{}
	list := func() ([]rlEntry, error) {
		data, err := e.idx.VerifRecordList(index.BucketIndex(bucket))
		if err != nil {
			return nil, err
		}
		return decodeRL(data)
	}
	check := func(i int, what string) *Violation {
		for k, key := range keys {
			got, found, err := e.idx.Get(key)
			if err != nil {
				return viol("index-get-error|"+what+"|"+errClass(err), i, "Get(%x): %v", key, err)
			}
			if want, ok := present[k]; ok {
				if !found {
					return viol("present-key-unresolved|"+what+"|not-found", i, "Get(%x) found nothing, key is present at %v", key, want)
				}
				if got != want {
					return viol("present-key-unresolved|"+what+"|other-location", i, "Get(%x) = %v, latest location is %v (that location belongs to key %v)", key, got, want, owner[got])
				}
			} else if found {
				if _, ok := owner[got]; !ok {
					return viol("absent-key-resolves-to-dead-location|"+what+"|", i, "Get(%x) of an absent key returned %v which is not the location of any present key", key, got)
				}
			}
		}
		ents, err := list()
		if err != nil {
			return viol("record-list-unreadable|"+what+"|"+errClass(err), i, "%v", err)
		}
		if len(ents) > st.maxLen {
			st.maxLen = len(ents)
		}
		if len(ents) != len(present) {
			return viol("record-list-size|"+what+"|", i, "record list has %d entries, %d keys are present", len(ents), len(present))
		}
		for j, en := range ents {
			if j > 0 && bytes.Compare(ents[j-1].key, en.key) >= 0 {
				return viol("record-list-unsorted|"+what+"|", i, "stored prefix %x is not greater than its predecessor %x", en.key, ents[j-1].key)
			}
			for j2, o := range ents {
				if j2 != j && bytes.HasPrefix(en.key, o.key) {
					return viol("record-list-not-prefix-free|"+what+"|", i, "stored prefix %x is a prefix of stored prefix %x", o.key, en.key)
				}
			}
			k, ok := owner[en.loc]
			if !ok {
				return viol("record-list-dead-location|"+what+"|", i, "entry %x names location %v which no present key owns", en.key, en.loc)
			}
			if !bytes.HasPrefix(keys[k][strip:], en.key) {
				return viol("stored-prefix-not-prefix-of-owner|"+what+"|", i, "entry %x names the location of key %x whose remainder is %x", en.key, keys[k], keys[k][strip:])
			}
		}
		return nil
	}
	for i, op := range c.Ops {
		if op.K == "evict" {
			// Two flushes that carry changes of other buckets: the bucket under
			// test leaves both in-memory pools and is read from disk from now on.
			for r := 0; r < 2; r++ {
				// One of the two buckets that are reserved for this purpose (never
				// handed out as a bucket under test); unique key each time.
				b2 := uint32(1)<<e.bits - 1 - uint32(r) // the two reserved buckets
				e.evictSeq++
				lead2 := []byte{byte(b2), byte(b2 >> 8), byte(b2 >> 16), byte(b2 >> 24)}[:(int(e.bits)+7)/8]
				k2 := append(append([]byte{}, lead2...), 0xe1, byte(e.evictSeq), byte(e.evictSeq>>8), byte(e.evictSeq>>16), byte(e.evictSeq>>24))
				if e.bits == 9 {
					k2[1] = byte(b2>>8) & 1 // bit 8 of the key belongs to the bucket number
				}
				blk2, _ := e.prim.Put(k2, []byte{1})
				if err := e.idx.Put(k2, blk2); err != nil {
					return st, viol("index-put-error|evict|"+errClass(err), i, "Put into another bucket: %v", err)
				}
				if _, err := e.idx.Flush(); err != nil {
					return st, viol("index-flush-error|evict|"+errClass(err), i, "%v", err)
				}
			}
			st.evicted = true
			if v := check(i, "evict"); v != nil {
				return st, v
			}
			continue
		}
		if op.K == "flush" {
			if e.beforeFlushOp != nil {
				e.beforeFlushOp(i)
			}
			if _, err := e.idx.Flush(); err != nil {
				return st, viol("index-flush-error|flush|"+errClass(err), i, "%v", err)
			}
			if v := check(i, "flush"); v != nil {
				return st, v
			}
			continue
		}
		k := op.Key % len(keys)
		key := keys[k]
		var before []rlEntry
		var err error
		if !c.Sparse {
			before, err = list()
			if err != nil {
				return st, viol("record-list-unreadable|"+op.K+"|"+errClass(err), i, "%v", err)
			}
		}
		old, isPresent := present[k]
		switch op.K {
		case "reput":
			// Index.Put of a key that may already be there, which is what two
			// racing Store.Puts of one new key do ("Only store the new key if
			// it doesn't exist yet"): the list must stay exactly as it is.
			blk, _ := e.prim.Put(key, []byte{byte(i)})
			blk.Size = types.Size(1 + i%200)
			if err = e.idx.Put(key, blk); err != nil {
				return st, viol("index-put-error|reput|"+errClass(err), i, "Put(%x): %v", key, err)
			}
			if !isPresent {
				present[k] = blk
				owner[blk] = k
			} else if !c.Sparse {
				after, err2 := list()
				if err2 != nil {
					return st, viol("record-list-unreadable|reput|"+errClass(err2), i, "%v", err2)
				}
				if len(after) != len(before) {
					return st, viol("put-of-present-key-changed-the-list|reput|length", i, "Put(%x) of a present key changed the number of entries from %d to %d", key, len(before), len(after))
				}
				for j := range before {
					if !bytes.Equal(before[j].key, after[j].key) || before[j].loc != after[j].loc {
						return st, viol("put-of-present-key-changed-the-list|reput|entry", i, "Put(%x) of a present key turned entry %x@%v into %x@%v", key, before[j].key, before[j].loc, after[j].key, after[j].loc)
					}
				}
			}
			if v := check(i, "reput"); v != nil {
				return st, v
			}
		case "set", "setfault":
			blk, _ := e.prim.Put(key, []byte{byte(i)})
			blk.Size = types.Size(1 + i%200)
			what := "put"
			if op.K == "setfault" {
				e.failNext = 1
			}
			if isPresent {
				what = "update"
				err = e.idx.Update(key, blk)
			} else {
				err = e.idx.Put(key, blk)
			}
			faultHit := op.K == "setfault" && e.failNext == 0
			e.failNext = 0
			if faultHit {
				st.faultHit = true
			}
			if err != nil && faultHit && errors.Is(err, errInjectedRead) {
				// The call failed because the primary could not be read: it
				// must have left everything as it was.
				if !c.Sparse {
					after, err2 := list()
					if err2 != nil {
						return st, viol("record-list-unreadable|failed-"+what+"|"+errClass(err2), i, "%v", err2)
					}
					if len(after) != len(before) {
						return st, viol("failed-call-changed-the-list|"+what+"|length", i, "%s(%x) failed (%v) but the list went from %d to %d entries", what, key, err, len(before), len(after))
					}
					for j := range before {
						if !bytes.Equal(before[j].key, after[j].key) || before[j].loc != after[j].loc {
							return st, viol("failed-call-changed-the-list|"+what+"|entry", i, "%s(%x) failed (%v) but entry %x@%v became %x@%v", what, key, err, before[j].key, before[j].loc, after[j].key, after[j].loc)
						}
					}
				}
				if v := check(i, "failed-"+what); v != nil {
					return st, v
				}
				continue
			}
			if isPresent {
				delete(owner, old)
			}
			if err != nil {
				return st, viol("index-"+what+"-error|"+what+"|"+errClass(err), i, "%s(%x): %v", what, key, err)
			}
			present[k] = blk
			owner[blk] = k
			if c.Sparse {
				continue
			}
			after, err := list()
			if err != nil {
				return st, viol("record-list-unreadable|"+what+"|"+errClass(err), i, "%v", err)
			}
			if isPresent {
				// Only the addressed entry may change, and only its location.
				if len(after) != len(before) {
					return st, viol("update-touched-others|update|length", i, "Update(%x) changed the number of entries from %d to %d", key, len(before), len(after))
				}
				for j := range before {
					same := bytes.Equal(before[j].key, after[j].key)
					if before[j].loc == old {
						if !same || after[j].loc != blk {
							return st, viol("update-touched-others|update|addressed-entry", i, "Update(%x): addressed entry went from %x@%v to %x@%v, want location %v", key, before[j].key, before[j].loc, after[j].key, after[j].loc, blk)
						}
					} else if !same || before[j].loc != after[j].loc {
						return st, viol("update-touched-others|update|other-entry", i, "Update(%x) changed another entry: %x@%v -> %x@%v", key, before[j].key, before[j].loc, after[j].key, after[j].loc)
					}
				}
			} else {
				// Other entries keep their locations; stored prefixes may grow.
				byLoc := map[types.Block][]byte{}
				for _, en := range after {
					byLoc[en.loc] = en.key
				}
				for _, en := range before {
					nk, ok := byLoc[en.loc]
					if !ok {
						return st, viol("put-touched-others|put|entry-lost", i, "Put(%x) dropped the entry %x@%v", key, en.key, en.loc)
					}
					if len(nk) > len(en.key) {
						st.lengthened = true
					}
				}
			}
			if v := check(i, what); v != nil {
				return st, v
			}
		case "rm":
			if !isPresent {
				continue
			}
			removed, err := e.idx.Remove(key)
			if err != nil {
				return st, viol("index-remove-error|remove|"+errClass(err), i, "Remove(%x): %v", key, err)
			}
			if !removed {
				return st, viol("remove-result|remove|false-for-present", i, "Remove(%x) reported false for a present key", key)
			}
			delete(present, k)
			delete(owner, old)
			if c.Sparse {
				continue
			}
			after, err := list()
			if err != nil {
				return st, viol("record-list-unreadable|remove|"+errClass(err), i, "%v", err)
			}
			j2 := 0
			for _, en := range before {
				if en.loc == old {
					continue
				}
				if j2 >= len(after) || !bytes.Equal(after[j2].key, en.key) || after[j2].loc != en.loc {
					return st, viol("remove-touched-others|remove|other-entry", i, "Remove(%x) changed another entry (%x@%v)", key, en.key, en.loc)
				}
				j2++
			}
			if j2 != len(after) {
				return st, viol("remove-touched-others|remove|length", i, "Remove(%x) left %d entries, want %d", key, len(after), j2)
			}
			if v := check(i, "remove"); v != nil {
				return st, v
			}
		default:
			panic(infraError{fmt.Errorf("unknown index op %q", op.K)})
		}
	}
	if c.Sparse {
		return st, check(len(c.Ops), "final")
	}
	return st, nil
}

// genRLBulk: hundreds of keys in one bucket (a record list of several KiB),
// written, flushed, pushed out of the in-memory pools and then read, updated
// and removed from disk.
func genRLBulk(t *rapid.T) RLCase {
	c := RLCase{Bits: []uint8{8, 16}[rapid.IntRange(0, 1).Draw(t, "bits")], Sparse: true}
	n := rapid.IntRange(150, 450).Draw(t, "nkeys")
	tailLen := []int{3, 4, 6, 12}[rapid.IntRange(0, 3).Draw(t, "taillen")]
	stem := rapid.SliceOfN(rapid.Byte(), tailLen-2, tailLen-2).Draw(t, "stem")
	for i := 0; i < n; i++ {
		tail := append(append([]byte{}, stem...), byte(i>>8), byte(i))
		c.Tails = append(c.Tails, tail)
	}
	for i := 0; i < n; i++ {
		c.Ops = append(c.Ops, RLOp{K: "set", Key: i})
	}
	c.Ops = append(c.Ops, RLOp{K: "flush"}, RLOp{K: "evict"})
	extra := rapid.SliceOfN(rapid.Custom(func(t *rapid.T) RLOp {
		k := []string{"set", "rm", "flush", "evict"}[weighted(t, "kind", []int{6, 3, 1, 1})]
		return RLOp{K: k, Key: rapid.IntRange(0, n-1).Draw(t, "key")}
	}), 0, 30).Draw(t, "extra")
	c.Ops = append(c.Ops, extra...)
	return c
}

func genRL(t *rapid.T) RLCase {
	var c RLCase
	c.Bits = []uint8{8, 9, 16}[weighted(t, "bits", []int{4, 2, 2})]
	lead := (int(c.Bits) + 7) / 8
	minTail := 4 - lead
	if minTail < 1 {
		minTail = 1
	}
	tailLen := []int{minTail, 2, 3, 4, 6, 12, 28, 38}[weighted(t, "taillen", []int{2, 3, 6, 6, 4, 2, 2, 1})]
	if tailLen < minTail {
		tailLen = minTail
	}
	alpha := []int{2, 3, 5, 256}[weighted(t, "alphabet", []int{5, 3, 2, 2})]
	n := rapid.IntRange(2, 10).Draw(t, "nkeys")
	seen := map[string]bool{}
	for i := 0; i < n; i++ {
		tail := make([]byte, tailLen)
		for j := range tail {
			if alpha == 256 {
				tail[j] = rapid.Byte().Draw(t, "b")
			} else {
				tail[j] = []byte{0x00, 0x01, 0xff, 0x7f, 0x80}[rapid.IntRange(0, alpha-1).Draw(t, "b")]
			}
		}
		if c.Bits == 9 {
			tail[0] &^= 1 // bit 8 of the key belongs to the bucket number
		}
		if seen[string(tail)] {
			continue
		}
		seen[string(tail)] = true
		c.Tails = append(c.Tails, tail)
	}
	c.Ops = rapid.SliceOfN(rapid.Custom(func(t *rapid.T) RLOp {
		k := []string{"set", "rm", "flush", "evict", "setfault", "reput"}[weighted(t, "kind", []int{12, 4, 2, 1, 1, 2})]
		return RLOp{K: k, Key: rapid.IntRange(0, len(c.Tails)-1).Draw(t, "key")}
	}), 1, 80).Draw(t, "ops")
	return c
}

// genRLLongStem: all keys of the bucket share a long stem (200..300 bytes), so
// that the stored prefixes get long too. The record format keeps the length
// of a stored prefix in one byte.
func genRLLongStem(t *rapid.T) RLCase {
	c := genRL(t)
	if len(c.Ops) > 30 {
		c.Ops = c.Ops[:30]
	}
	n := []int{200, 250, 252, 253, 254, 255, 256, 257, 300}[rapid.IntRange(0, 8).Draw(t, "stemlen")]
	stem := make([]byte, n)
	for i := range stem {
		stem[i] = byte(7 + i%5)
	}
	if c.Bits == 9 {
		stem[0] &^= 1 // bit 8 of the key belongs to the bucket number
	}
	for i, tl := range c.Tails {
		c.Tails[i] = append(append(HexBytes{}, stem...), tl...)
	}
	return c
}

// longestShare returns the largest number of leading bytes that two keys of
// the case have in common behind the bytes the index strips.
func longestShare(c RLCase) int {
	lead := (int(c.Bits)+7)/8 - int(c.Bits/8) // bytes of the bucket lead that stay in the stored key
	best := 0
	for i := range c.Tails {
		for j := i + 1; j < len(c.Tails); j++ {
			a, b := c.Tails[i], c.Tails[j]
			n := 0
			for n < len(a) && n < len(b) && a[n] == b[n] {
				n++
			}
			if n+lead > best {
				best = n + lead
			}
		}
	}
	return best
}

// runRLLong runs a long-stem case in an index of its own (a panic inside the
// index may leave its locks held, so the index is dropped afterwards).
func runRLLong(c RLCase) (st rlStats, v *Violation) {
	e := &c08Env{bits: c.Bits, fileMax: 1 << 20}
	e.reset()
	v = guard(-1, "long-stem", func() *Violation {
		var vv *Violation
		st, vv = runRL(e, c)
		return vv
	})
	if v != nil && strings.HasPrefix(v.Signature, "panic|") {
		e.idx = nil
	}
	e.close()
	if v != nil && longestShare(c) >= 255 {
		v.Signature += "|keys-share-255-or-more-stored-bytes"
	}
	return st, v
}

// genRLBoundary: a random case with one of its flushes placed at the file-size
// boundary, followed by a push-out so that the list is read from disk.
func genRLBoundary(t *rapid.T) RLCase {
	c := genRL(t)
	if len(c.Ops) > 40 {
		c.Ops = c.Ops[:40]
	}
	// Somewhere behind a change: flush, push out, and go on.
	at := rapid.IntRange(1, len(c.Ops)).Draw(t, "boundaryAfter")
	rest := c.Ops[at:]
	ops := append([]RLOp{}, c.Ops[:at]...)
	if ops[0].K != "set" {
		ops = append([]RLOp{{K: "set", Key: 0}}, ops...)
	}
	ops = append(ops, RLOp{K: "set", Key: rapid.IntRange(0, len(c.Tails)-1).Draw(t, "bkey")})
	c.BoundaryAt = len(ops)
	ops = append(ops, RLOp{K: "flush"}, RLOp{K: "evict"})
	c.Ops = append(ops, rest...)
	c.Boundary = rapid.IntRange(1, 4).Draw(t, "boundary")
	return c
}

// runRLBoundary runs a Boundary case: a measuring pass, then the real one.
func runRLBoundary(c RLCase) (st rlStats, v *Violation) {
	length := int64(-1)
	e1 := &c08Env{bits: c.Bits, fileMax: 1 << 30}
	e1.reset()
	e1.beforeFlushOp = func(i int) {
		if i == c.BoundaryAt {
			if fi, err := os.Stat(filepath.Join(e1.dir, "idx.0")); err == nil {
				length = fi.Size()
			}
		}
	}
	st, v = runRL(e1, c)
	e1.close()
	if v != nil || length < 0 {
		return st, v
	}
	e2 := &c08Env{bits: c.Bits, fileMax: uint32(length) + uint32(c.Boundary)}
	e2.reset()
	defer e2.close()
	st, v = runRL(e2, c)
	st.boundary = true
	return st, v
}

// exhaustiveRL enumerates the small universes. It calls fn for every case.
func exhaustiveRL(sigma []byte, maxInsert int, withFollowUps bool, shard, shards int, fn func(RLCase) bool) {
	var universe []HexBytes
	for _, a := range sigma {
		for _, b := range sigma {
			for _, c := range sigma {
				universe = append(universe, HexBytes{a, b, c})
			}
		}
	}
	n := len(universe)
	var seqNo int
	var rec func(order []int, used []bool) bool
	emit := func(order []int) bool {
		seqNo++
		if seqNo%shards != shard {
			return true
		}
		base := make([]RLOp, len(order))
		for i, k := range order {
			base[i] = RLOp{K: "set", Key: k}
		}
		var follow [][]RLOp
		if withFollowUps {
			for _, k := range order {
				follow = append(follow, []RLOp{{K: "set", Key: k}}, []RLOp{{K: "rm", Key: k}}, []RLOp{{K: "rm", Key: k}, {K: "set", Key: k}})
			}
		} else {
			follow = [][]RLOp{nil}
		}
		for _, f := range follow {
			for placement := 0; placement < 3; placement++ {
				var ops []RLOp
				switch placement {
				case 0: // never flush
					ops = append(append(ops, base...), f...)
				case 1: // flush after every op
					for _, o := range append(append([]RLOp{}, base...), f...) {
						ops = append(ops, o, RLOp{K: "flush"})
					}
				case 2: // one flush before the follow-up
					ops = append(append(append(ops, base...), RLOp{K: "flush"}), f...)
				}
				if !fn(RLCase{Bits: 16, Tails: universe, Ops: ops}) {
					return false
				}
			}
		}
		return true
	}
	rec = func(order []int, used []bool) bool {
		if len(order) > 0 {
			if !emit(order) {
				return false
			}
		}
		if len(order) == maxInsert {
			return true
		}
		for k := 0; k < n; k++ {
			if used[k] {
				continue
			}
			used[k] = true
			if !rec(append(order, k), used) {
				return false
			}
			used[k] = false
		}
		return true
	}
	rec(nil, make([]bool, n))
}

func TestC08(t *testing.T) {
	ev := newEvidence("C08", "exploration", c08Rule)
	defer ev.Write()
	envs := map[uint8]*c08Env{}
	env := func(bits uint8) *c08Env {
		if envs[bits] == nil {
			envs[bits] = newC08Env(bits)
		}
		return envs[bits]
	}
	defer func() {
		for _, e := range envs {
			e.close()
		}
	}()
	if envReplay != "" {
		var c RLCase
		readReplay(envReplay, &c)
		run1 := func() (rlStats, *Violation) { return runRL(env(c.Bits), c) }
		if c.Boundary > 0 {
			run1 = func() (rlStats, *Violation) { return runRLBoundary(c) }
		}
		_, v := run1()
		ev.Record(c, true)
		if v != nil {
			ev.Report(v, c)
			t.Fatalf("replay: %v", v)
		}
		return
	}
	for _, f := range regressFiles("C08") {
		var c RLCase
		readReplay(f, &c)
		run1 := func() (rlStats, *Violation) { return runRL(env(c.Bits), c) }
		if c.Boundary > 0 {
			run1 = func() (rlStats, *Violation) { return runRLBoundary(c) }
		}
		_, v := run1()
		ev.Record(c, true, "regression-case")
		if v != nil && ev.Report(v, c) {
			t.Fatalf("regression case %s: %v", f, v)
		}
	}
	// Exhaustive part.
	max2, max3 := 5, 3
	if thorough() {
		max2, max3 = 6, 4
	}
	exh := 0
	failed := false
	run := func(class string) func(c RLCase) bool {
		return func(c RLCase) bool {
			st, v := runRL(env(c.Bits), c)
			exh++
			ev.RecordEnumerated(c, st.maxLen >= 3 && st.lengthened, class)
			if v != nil && ev.Report(v, c) {
				t.Errorf("%v", v)
				failed = true
				return false
			}
			return true
		}
	}
	exhaustiveRL([]byte{0x00, 0x01}, max2, true, envShard, envShards, run("exhaustive-sigma2"))
	if !failed {
		exhaustiveRL([]byte{0x00, 0x01, 0xff}, max3, false, envShard, envShards, run("exhaustive-sigma3"))
	}
	ev.Extra["exhaustive_cases"] = exh
	ev.Extra["exhaustive_bounds"] = fmt.Sprintf("sigma2<=%d inserts with follow-ups, sigma3<=%d inserts", max2, max3)
	if failed {
		return
	}
	// Random part.
	setRapidChecks(budget(12000, 30000))
	rapid.Check(t, func(rt *rapid.T) {
		if pastDeadline() {
			ev.Skip()
			return
		}
		c := genRL(rt)
		st, v := runRL(env(c.Bits), c)
		cl := []string{"random", fmt.Sprintf("bits=%d", c.Bits)}
		if st.faultHit {
			cl = append(cl, "random:a-call-hit-the-injected-read-fault")
		}
		ev.Record(c, st.maxLen >= 3 && st.lengthened, cl...)
		if v != nil && ev.Report(v, c) {
			rt.Fatalf("%v", v)
		}
	})
	// Boundary part: a record list that starts within the last four bytes
	// below the index file-size limit.
	setRapidChecks(budget(1500, 6000))
	rapid.Check(t, func(rt *rapid.T) {
		if pastDeadline() {
			ev.Skip()
			return
		}
		c := genRLBoundary(rt)
		st, v := runRLBoundary(c)
		cl := []string{"boundary"}
		if st.boundary && st.evicted {
			cl = append(cl, fmt.Sprintf("boundary:list-starts-%d-below-limit", c.Boundary))
		}
		ev.Record(c, st.boundary && st.evicted && st.maxLen >= 2, cl...)
		if v != nil && ev.Report(v, c) {
			rt.Fatalf("%v", v)
		}
	})
	if t.Failed() {
		return
	}
	// Long-stem part: stored prefixes of 200..300 bytes.
	overLimit := 0
	setRapidChecks(budget(300, 1200))
	rapid.Check(t, func(rt *rapid.T) {
		if pastDeadline() {
			ev.Skip()
			return
		}
		c := genRLLongStem(rt)
		cl := []string{"long-stem"}
		if share := longestShare(c); share >= 255 {
			// A known finding lives here (KF-C08): a few cases confirm that
			// it is still there, the others are moved below the limit.
			overLimit++
			if overLimit > 6 {
				cut := share - 254
				for i := range c.Tails {
					c.Tails[i] = c.Tails[i][cut:]
				}
				if c.Bits == 9 {
					for i := range c.Tails {
						c.Tails[i][0] &^= 1
					}
				}
				cl = append(cl, "long-stem:moved-below-the-255-byte-limit(known finding excluded by construction)")
			} else {
				cl = append(cl, "long-stem:stored-prefix-over-255-bytes")
			}
		}
		st, v := runRLLong(c)
		cl = append(cl, fmt.Sprintf("long-stem:longest-shared-%d", min(longestShare(c)/10*10, 250)))
		ev.Record(c, st.maxLen >= 2 && st.lengthened, cl...)
		if v != nil && ev.Report(v, c) {
			rt.Fatalf("%v", v)
		}
	})
	if t.Failed() {
		return
	}
	// Bulk part: record lists of several KiB read from disk.
	setRapidChecks(budget(24, 40))
	rapid.Check(t, func(rt *rapid.T) {
		if pastDeadline() {
			ev.Skip()
			return
		}
		c := genRLBulk(rt)
		st, v := runRL(env(c.Bits), c)
		ev.Record(struct {
			Bits  uint8
			N     int
			Tail0 HexBytes
			Ops   int
		}{c.Bits, len(c.Tails), c.Tails[0], len(c.Ops)}, st.evicted, "bulk-bucket-read-from-disk")
		if v != nil && ev.Report(v, c) {
			rt.Fatalf("%v", v)
		}
	})
	ev.finish(t)
}
