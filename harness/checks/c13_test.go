package checks

import (
	"bytes"
	"fmt"
	"os"
	"path/filepath"
	"sort"
	"strings"
	"sync"
	"sync/atomic"
	"testing"
	"time"

	"github.com/ipld/go-storethehash/store"
	"github.com/ipld/go-storethehash/store/freelist"
	"github.com/ipld/go-storethehash/store/types"
	"github.com/ipld/go-storethehash/store/vhook"
	"pgregory.net/rapid"
)

const c13Rule = "(a) rapid-generated sequential histories on the multihash primary with GC cycles, flushes and reopens: the expected multiset of freed locations (the location a key had immediately before each overwrite with a different value, each successful Remove and each GC relocation, read through the public Index().Get) must equal the observed multiset = batches handed to and fully processed by GC (read from the .gc file at the named point before it is removed) + entries left in .free/.free.gc after a final flush; no observed entry may be a current location at hand-over time or at the end; after a completed cycle every delivered location is marked deleted or truncated away. " +
	"(c) crash clause: workloads of the C03 generator under the crash recorder; for drawn crash images (preferably inside the hand-over / freelist processing) every complete entry that was in .free/.free.gc when the process died must, after recovery, a flush and two GC cycles, name a dead record. (b) concurrent histories on the freelist package alone (putters, Flush, ToGC with the consumer deleting the .gc file, delays injected at the named points inside Flush/ToGC from a generated schedule): multiset of all Puts = batches + final file. " +
	"(a') the same oracle on bulk histories: 350-800 keys written, flushed, all overwritten or removed, flushed, then GC cycles - one hand-over of several hundred entries (more than any read buffer holds); " +
	"(d) a call inside a flush: a Flush is suspended by the cooperative scheduler at a drawn point of the flush pipeline (mostly right after the commit has taken its freelist mark, with superseded locations pending before the mark), a writer task completes 1-3 overwrites/removals, the flush completes; then a Flush, and after each of two GC cycles another Flush: every superseded location must be recorded exactly once on the freelist files / hand-overs, nothing else, and no current location; " +
	"(e) concurrently requested GC cycles: superseded locations are flushed, two or three primary GC cycles are requested at the same time, twice, each time followed by a Flush and the books (presented + recorded exactly once each); " +
	"non-trivial = (a) >=3 superseded locations spread over >=2 completed hand-overs, (b) >=2 hand-overs while puts were in flight; distinct = distinct canonical JSON of the case"

type c13Stats struct {
	Expected  int
	Handovers int
	Delivered int
}

func genC13(t *rapid.T) SeqCase {
	var c SeqCase
	c.Cfg = genConfig(t, cfgGenOpts{onlyMultihash: true, smallBits: true, smallFiles: true})
	if c.Cfg.Immutable && weighted(t, "keepImmutable", []int{3, 1}) == 0 {
		c.Cfg.Immutable = false
	}
	c.Keys = genKeys(t, c.Cfg, 2, 10)
	kinds := []string{opPut, opRePut, opGet, opRemove, opFlush, opCheckAll, opPGC, opIGC, opReopen}
	m := genMix(t, kinds, []int{10, 2, 1, 4, 3, 1, 4, 1, 1})
	c.Ops = genOps(t, m, len(c.Keys), c.Cfg, 6, 50, false)
	return c
}

// genC13Bulk: volume between two hand-overs. Hundreds of keys are written,
// flushed, all superseded (overwritten or removed), flushed, and one GC cycle
// receives the whole batch at once - more entries than fit any read buffer.
func genC13Bulk(t *rapid.T) SeqCase {
	var c SeqCase
	c.Cfg = Config{Primary: store.MultihashPrimary, Bits: []uint8{8, 10, 12}[rapid.IntRange(0, 2).Draw(t, "bits")], FileCache: 512}
	c.Cfg.PrimSize = []uint32{0, 4096, 65536, 1000}[rapid.IntRange(0, 3).Draw(t, "primsize")]
	c.Cfg.IdxSize = []uint32{0, 4096}[rapid.IntRange(0, 1).Draw(t, "idxsize")]
	n := rapid.IntRange(350, 800).Draw(t, "nkeys")
	base := rapid.SliceOfN(rapid.Byte(), 4, 4).Draw(t, "base")
	for i := 0; i < n; i++ {
		d := append(append([]byte{}, base...), byte(i), byte(i>>8), 0x5a, 0xa5)
		d[0] ^= byte(i * 7) // spread over buckets
		c.Keys = append(c.Keys, KeySpec{Digest: d, Code: 0x00})
	}
	for i := 0; i < n; i++ {
		c.Ops = append(c.Ops, Op{K: opPut, Key: i, VLen: 3})
	}
	c.Ops = append(c.Ops, Op{K: opFlush})
	rmEvery := rapid.IntRange(2, 9).Draw(t, "rmevery")
	for i := 0; i < n; i++ {
		if i%rmEvery == 0 {
			c.Ops = append(c.Ops, Op{K: opRemove, Key: i})
		} else {
			c.Ops = append(c.Ops, Op{K: opPut, Key: i, VLen: 6})
		}
	}
	c.Ops = append(c.Ops, Op{K: opFlush}, Op{K: opPGC, A: []int{0, 50, 100}[rapid.IntRange(0, 2).Draw(t, "lowuse")]}, Op{K: opFlush}, Op{K: opPGC, A: 100}, Op{K: opCheckAll})
	return c
}

type locCount map[types.Block]int

func (l locCount) String() string {
	var s []string
	for b, n := range l {
		s = append(s, fmt.Sprintf("%d/%d x%d", b.Offset, b.Size, n))
	}
	sort.Strings(s)
	return fmt.Sprint(s)
}

func runC13(c SeqCase) (SeqStats, c13Stats, *Violation) {
	var cs c13Stats
	expected := locCount{}
	observed := locCount{}
	var hookViol *Violation
	var rr *seqRunner
	var batch []fsckEntry

	currentLocs := func(r *seqRunner) map[string]types.Block {
		out := map[string]types.Block{}
		for _, ks := range r.c.Keys {
			if _, present := r.model[string(ks.Digest)]; !present {
				continue
			}
			blk, found, err := r.s.Index().Get(ks.Digest)
			if err == nil && found {
				out[string(ks.Digest)] = blk
			}
		}
		return out
	}

	o := seqOpts{TrackGC: true}
	// Wrap every step: note locations before and after.
	o.Before = func(r *seqRunner, i int, op Op) {
		rr = r
		r.aux = currentLocs(r)
		batch = nil
	}
	o.After = func(r *seqRunner, i int, op Op, failed bool) *Violation {
		if failed {
			return nil
		}
		if hookViol != nil {
			return hookViol
		}
		before := r.aux.(map[string]types.Block)
		after := currentLocs(r)
		switch op.K {
		case opPut, opRePut, opRemove, opPGC:
			for d, b := range before {
				a, still := after[d]
				if !still || a != b {
					expected[b]++
					cs.Expected++
				}
			}
		default:
			for d, b := range before {
				if a, still := after[d]; !still || a != b {
					return viol("location-changed|"+op.K+"|", i, "the location of key %x changed from %v to %v during %s", d, b, a, op.K)
				}
			}
		}
		if op.K == opPGC && batch != nil {
			// The cycle that received the batch has returned: every delivered
			// record must be dead now.
			P := effectiveSize(r.c.Cfg.PrimSize)
			for _, e := range batch {
				fn := uint32(e.Offset / P)
				data, err := os.ReadFile(filepath.Join(r.dir, fmt.Sprintf("%s.%d", dataBase, fn)))
				if err != nil {
					continue // file gone
				}
				local := e.Offset - uint64(fn)*P
				if local+4 > uint64(len(data)) {
					continue // truncated away
				}
				if u32(data[local:])&fsckDeleted == 0 {
					// The cycle may have been interrupted after the hand-over
					// (budget); then the batch stays in the .gc file.
					if _, err := os.Stat(filepath.Join(r.dir, idxBase+".free.gc")); err == nil {
						continue
					}
					return viol("delivered-not-deleted|pgc|", i, "location %d/%d was handed to a GC cycle that completed, but its record is not marked deleted", e.Offset, e.Size)
				}
			}
		}
		return nil
	}

	handler := func(name string) {
		if name != "pgc.fl.remove" || rr == nil {
			return
		}
		// The batch has been applied completely and is about to be dropped.
		ents, err := parseFreelist(filepath.Join(rr.dir, idxBase+".free.gc"))
		if err != nil {
			return
		}
		cs.Handovers++
		cur := map[types.Block]string{}
		for d, b := range currentLocs(rr) {
			cur[b] = d
		}
		for _, e := range ents {
			b := types.Block{Offset: types.Position(e.Offset), Size: types.Size(e.Size)}
			observed[b]++
			cs.Delivered++
			if d, live := cur[b]; live && hookViol == nil {
				hookViol = viol("current-location-handed-to-gc|pgc|", -1, "location %d/%d is the current location of key %x and was handed to GC", e.Offset, e.Size, d)
			}
		}
		batch = append(batch, ents...)
	}

	o.Epilogue = func(r *seqRunner, step int) *Violation {
		if hookViol != nil {
			return hookViol
		}
		if err := r.s.Flush(); err != nil {
			return viol("flush-error|final|"+errClass(err), step, "Flush: %v", err)
		}
		final := locCount{}
		for b, n := range observed {
			final[b] = n
		}
		for _, name := range []string{idxBase + ".free", idxBase + ".free.gc"} {
			ents, err := parseFreelist(filepath.Join(r.dir, name))
			if err != nil {
				return viol("freelist-unreadable|final|", step, "%v", err)
			}
			for _, e := range ents {
				final[types.Block{Offset: types.Position(e.Offset), Size: types.Size(e.Size)}]++
			}
		}
		for b, n := range expected {
			switch got := final[b]; {
			case got == 0:
				return viol("freed-location-lost|final|", step, "location %d/%d was superseded %d time(s) but never reached the freelist or GC (expected %v, observed %v)", b.Offset, b.Size, n, expected, final)
			case got > n:
				return viol("freed-location-duplicated|final|", step, "location %d/%d was superseded %d time(s) but recorded %d times (expected %v, observed %v)", b.Offset, b.Size, n, got, expected, final)
			case got < n:
				return viol("freed-location-lost|final|", step, "location %d/%d recorded %d times, expected %d", b.Offset, b.Size, got, n)
			}
		}
		for b := range final {
			if expected[b] == 0 {
				return viol("unexpected-freed-location|final|", step, "location %d/%d is on the freelist / was handed to GC although no overwrite, removal or relocation superseded it (expected %v, observed %v)", b.Offset, b.Size, expected, final)
			}
		}
		for d, b := range currentLocs(r) {
			if final[b] != 0 {
				return viol("current-location-recorded|final|", step, "current location %d/%d of key %x is recorded as free", b.Offset, b.Size, d)
			}
		}
		return nil
	}
	vhook.SetHandler(handler)
	defer vhook.SetHandler(nil)
	st, v := runSeq(c, o)
	return st, cs, v
}

// --- (d) a call inside a suspended flush ----------------------------------

// genC13Inside: the situation of the third suspended-call shape (a Flush is
// suspended at a drawn point, a writer task completes a few calls, the flush
// completes), here without a crash: afterwards everything is flushed and the
// books are checked. The flush mostly stops right after the commit has taken
// its freelist mark, with superseded locations pending before the mark.
func genC13Inside(t *rapid.T) SuspCase {
	c := genSusp3(t)
	c.Cfg.Primary = store.MultihashPrimary
	c.Cfg.Immutable = false
	pts := append([]string{"commit.marked", "flush.stamped"}, suspFlushPoints...)
	w := make([]int, len(pts))
	for i := range w {
		w[i] = 1
	}
	w[0] = 2 * len(pts)
	c.PointFlush = pts[weighted(t, "c13point", w)]
	// Pending superseded locations before the flush begins.
	for i := 0; i < 2; i++ {
		k := rapid.IntRange(0, len(c.Keys)-1).Draw(t, "prekey")
		c.Prefix = append(c.Prefix, Op{K: opPut, Key: k, VLen: 3 + i})
		c.Unflushed = append(c.Unflushed, Op{K: opPut, Key: k, VLen: 20 + i})
	}
	return c
}

func runC13Inside(c SuspCase) (hit bool, v *Violation) {
	dir := newScratch("c13in")
	defer os.RemoveAll(dir)
	s, err := openStore(dir, c.Cfg)
	if err != nil {
		panic(infraError{err})
	}
	defer closeQuietly(s)
	enc := func(k int) []byte { return c.Keys[k%len(c.Keys)].Encode(c.Cfg.Primary, false) }
	expected := locCount{}
	observed := locCount{}
	locs := func() map[int]types.Block {
		out := map[int]types.Block{}
		for k, ks := range c.Keys {
			if blk, found, err := s.Index().Get(ks.Digest); err == nil && found {
				// The entry may belong to another key sharing the prefix.
				if key, _, err := s.Primary().Get(blk); err == nil && key != nil {
					if ik, err := s.Primary().IndexKey(key); err == nil && string(ik) == string(ks.Digest) {
						out[k] = blk
					}
				}
			}
		}
		return out
	}
	superseded := 0
	around := func(fn func() error) error {
		before := locs()
		if err := fn(); err != nil {
			return err
		}
		after := locs()
		for k, b := range before {
			if a, still := after[k]; !still || a != b {
				expected[b]++
				superseded++
			}
		}
		return nil
	}
	apply := func(i int, op Op) error {
		k := op.Key % len(c.Keys)
		switch op.K {
		case opPut, opRePut:
			return around(func() error { return s.Put(enc(k), valueFor(i, op.VLen, false)) })
		case opRemove:
			return around(func() error { _, err := s.Remove(enc(k)); return err })
		case opFlush:
			return s.Flush()
		}
		return nil
	}
	for i, op := range append(append([]Op{}, c.Prefix...), Op{K: opFlush}) {
		if apply(i, op) != nil {
			return false, nil
		}
	}
	for i, op := range c.Unflushed {
		if apply(7000+i, op) != nil {
			return false, nil
		}
	}
	pendingBefore := superseded
	sch := newScheduler()
	sch.install()
	sch.spawn("flush", func(yield func(string)) { s.Flush() })
	werr := false
	sch.spawn("writer", func(yield func(string)) {
		for i, op := range c.Other {
			if apply(8000+i, op) != nil {
				werr = true
				return
			}
		}
	})
	allDone := sch.run(singlePreemption{a: 0, point: c.PointFlush, n: 1, order: []int{1}}, 6000)
	parkedThere := sch.tasks[0].hits[c.PointFlush] > 0
	late := sch.lateArrivals
	sch.release()
	sch.join(20 * time.Second)
	sch.uninstall()
	if !allDone || werr || late > 0 {
		return false, nil // not the serialized situation; the books would still have to balance, but keep the case simple
	}
	hit = parkedThere && superseded > pendingBefore && pendingBefore > 0
	var hookViol *Violation
	vhook.SetHandler(func(name string) {
		if name != "pgc.fl.remove" {
			return
		}
		ents, err := parseFreelist(filepath.Join(dir, idxBase+".free.gc"))
		if err != nil {
			return
		}
		cur := map[types.Block]int{}
		for k, b := range locs() {
			cur[b] = k
		}
		for _, e := range ents {
			b := types.Block{Offset: types.Position(e.Offset), Size: types.Size(e.Size)}
			observed[b]++
			if k, live := cur[b]; live && hookViol == nil {
				hookViol = viol("current-location-handed-to-gc|pgc|inside-flush@"+c.PointFlush, -1, "location %d/%d is the current location of key %d and was handed to GC", e.Offset, e.Size, k)
			}
		}
	})
	defer vhook.SetHandler(nil)
	books := func(when string) *Violation {
		if err := s.Flush(); err != nil {
			return nil
		}
		final := locCount{}
		for b, n := range observed {
			final[b] = n
		}
		for _, name := range []string{idxBase + ".free", idxBase + ".free.gc"} {
			ents, err := parseFreelist(filepath.Join(dir, name))
			if err != nil {
				return viol("freelist-unreadable|"+when+"|", -1, "%v", err)
			}
			for _, e := range ents {
				final[types.Block{Offset: types.Position(e.Offset), Size: types.Size(e.Size)}]++
			}
		}
		site := when + "|inside-flush@" + c.PointFlush
		for b, n := range expected {
			switch got := final[b]; {
			case got < n:
				return viol("freed-location-lost|"+site, -1, "location %d/%d was superseded %d time(s) (by a call that ran while a Flush was suspended at %s, or before it) but is recorded %d time(s) on the freelist files / hand-overs after a completed Flush (expected %v, recorded %v)", b.Offset, b.Size, n, c.PointFlush, got, expected, final)
			case got > n:
				return viol("freed-location-duplicated|"+site, -1, "location %d/%d was superseded %d time(s) but is recorded %d times (expected %v, recorded %v)", b.Offset, b.Size, n, got, expected, final)
			}
		}
		for b := range final {
			if expected[b] == 0 {
				return viol("unexpected-freed-location|"+site, -1, "location %d/%d is recorded although nothing superseded it (expected %v, recorded %v)", b.Offset, b.Size, expected, final)
			}
		}
		for k, b := range locs() {
			if final[b] != 0 {
				return viol("current-location-recorded|"+site, -1, "current location %d/%d of key %d is recorded as free", b.Offset, b.Size, k)
			}
		}
		return nil
	}
	return hit, guard(-1, "c13-inside", func() *Violation {
		if v := books("after-flush"); v != nil {
			return v
		}
		mp := mhPrimaryOf(s)
		for r := 0; r < 2; r++ {
			around(func() error { mp.GC(bg, int64(c.GCLow)); return nil })
			if hookViol != nil {
				return hookViol
			}
			if v := books(fmt.Sprintf("after-gc-%d", r+1)); v != nil {
				return v
			}
		}
		return nil
	})
}

// --- (e) overlapping GC requests -------------------------------------------

// runC13Overlap: superseded locations are flushed, then two or three primary
// GC cycles are requested at the same time (a requested cycle next to the
// periodic one is the everyday form); afterwards the books must balance: every
// superseded location presented exactly once.
func runC13Overlap(c SuspCase) (presented int, v *Violation) {
	dir := newScratch("c13ov")
	defer os.RemoveAll(dir)
	s, err := openStore(dir, c.Cfg)
	if err != nil {
		panic(infraError{err})
	}
	defer closeQuietly(s)
	enc := func(k int) []byte { return c.Keys[k%len(c.Keys)].Encode(c.Cfg.Primary, false) }
	expected := locCount{}
	observed := locCount{}
	var omu sync.Mutex
	locs := func() map[int]types.Block {
		out := map[int]types.Block{}
		for k, ks := range c.Keys {
			if blk, found, err := s.Index().Get(ks.Digest); err == nil && found {
				if key, _, err := s.Primary().Get(blk); err == nil && key != nil {
					if ik, err := s.Primary().IndexKey(key); err == nil && string(ik) == string(ks.Digest) {
						out[k] = blk
					}
				}
			}
		}
		return out
	}
	around := func(fn func() error) error {
		before := locs()
		if err := fn(); err != nil {
			return err
		}
		after := locs()
		for k, b := range before {
			if a, still := after[k]; !still || a != b {
				expected[b]++
			}
		}
		return nil
	}
	n := 0
	for _, op := range append(append(append([]Op{}, c.Prefix...), c.Unflushed...), Op{K: opFlush}) {
		n++
		k := op.Key % len(c.Keys)
		var err error
		switch op.K {
		case opPut, opRePut:
			err = around(func() error { return s.Put(enc(k), valueFor(n, op.VLen, false)) })
		case opRemove:
			err = around(func() error { _, e := s.Remove(enc(k)); return e })
		case opFlush:
			err = s.Flush()
		}
		if err != nil {
			return 0, nil
		}
	}
	vhook.SetHandler(func(name string) {
		if name != "pgc.fl.remove" {
			return
		}
		ents, err := parseFreelist(filepath.Join(dir, idxBase+".free.gc"))
		if err != nil {
			return
		}
		omu.Lock()
		for _, e := range ents {
			observed[types.Block{Offset: types.Position(e.Offset), Size: types.Size(e.Size)}]++
		}
		omu.Unlock()
	})
	defer vhook.SetHandler(nil)
	mp := mhPrimaryOf(s)
	return len(expected), guard(-1, "c13-overlap", func() *Violation {
		for round := 0; round < 2; round++ {
			around(func() error {
				var wg sync.WaitGroup
				for g := 0; g < 2+len(c.Keys)%2; g++ {
					wg.Add(1)
					go func() {
						defer wg.Done()
						mp.GC(bg, int64(c.GCLow))
					}()
				}
				wg.Wait()
				return nil
			})
			if err := s.Flush(); err != nil {
				return nil
			}
			final := locCount{}
			omu.Lock()
			for b, n := range observed {
				final[b] = n
			}
			omu.Unlock()
			for _, name := range []string{idxBase + ".free", idxBase + ".free.gc"} {
				ents, err := parseFreelist(filepath.Join(dir, name))
				if err != nil {
					return nil
				}
				for _, e := range ents {
					final[types.Block{Offset: types.Position(e.Offset), Size: types.Size(e.Size)}]++
				}
			}
			site := fmt.Sprintf("after-overlapping-gc-requests-%d|", round+1)
			for b, n := range expected {
				switch got := final[b]; {
				case got < n:
					return viol("freed-location-lost|"+site, -1, "location %d/%d was superseded %d time(s) but is recorded / was presented %d time(s) after concurrently requested GC cycles (expected %v, recorded %v)", b.Offset, b.Size, n, got, expected, final)
				case got > n:
					return viol("freed-location-duplicated|"+site, -1, "location %d/%d was superseded %d time(s) but was presented to GC / is recorded %d times after concurrently requested GC cycles (expected %v, recorded %v)", b.Offset, b.Size, n, got, expected, final)
				}
			}
			for b := range final {
				if expected[b] == 0 {
					return viol("unexpected-freed-location|"+site, -1, "location %d/%d was presented / is recorded although nothing superseded it (expected %v, recorded %v)", b.Offset, b.Size, expected, final)
				}
			}
		}
		return nil
	})
}

// --- (b) freelist package under concurrency -------------------------------

// FLCase is a concurrent history on one freelist.
type FLCase struct {
	Putters int   `json:"putters"`
	PerPut  int   `json:"per_putter"`
	Flushes int   `json:"flushes"`
	ToGCs   int   `json:"togcs"`
	Delays  []int `json:"delays_us"` // consumed round-robin at the named points
	// Pregrow: entries put and flushed sequentially before the concurrent
	// phase (more than the pool's initial capacity, so its array has grown).
	Pregrow int `json:"pregrow,omitempty"`
}

func genFL(t *rapid.T) FLCase {
	return FLCase{
		Putters: rapid.IntRange(1, 3).Draw(t, "putters"),
		PerPut:  rapid.IntRange(1, 40).Draw(t, "per"),
		Flushes: rapid.IntRange(0, 6).Draw(t, "flushes"),
		ToGCs:   rapid.IntRange(1, 5).Draw(t, "togcs"),
		Delays:  rapid.SliceOfN(rapid.IntRange(0, 300), 1, 12).Draw(t, "delays"),
		Pregrow: []int{0, 1100, 2500}[weighted(t, "pregrow", []int{3, 1, 1})],
	}
}

func runFL(c FLCase) (handoversInFlight int, v *Violation) {
	dir := newScratch("fl")
	defer os.RemoveAll(dir)
	path := filepath.Join(dir, "x.free")
	fl, err := freelist.Open(path)
	if err != nil {
		panic(infraError{err})
	}
	var di atomic.Int64
	vhook.SetHandler(func(name string) {
		if len(name) < 3 || name[:3] != "fl." {
			return
		}
		d := c.Delays[int(di.Add(1))%len(c.Delays)]
		if d > 0 {
			time.Sleep(time.Duration(d) * time.Microsecond)
		}
	})
	defer vhook.SetHandler(nil)

	for i := 0; i < c.Pregrow; i++ {
		if err := fl.Put(types.Block{Offset: types.Position(9000000 + i), Size: 9}); err != nil {
			panic(infraError{err})
		}
	}
	if c.Pregrow > 0 {
		if _, err := fl.Flush(); err != nil {
			panic(infraError{err})
		}
	}
	var wg sync.WaitGroup
	var inFlight atomic.Int64
	var errMu sync.Mutex
	var firstErr error
	fail := func(e error) {
		errMu.Lock()
		if firstErr == nil {
			firstErr = e
		}
		errMu.Unlock()
	}
	for p := 0; p < c.Putters; p++ {
		p := p
		wg.Add(1)
		inFlight.Add(1)
		go func() {
			defer wg.Done()
			defer inFlight.Add(-1)
			for i := 0; i < c.PerPut; i++ {
				if err := fl.Put(types.Block{Offset: types.Position(p*100000 + i + 1), Size: types.Size(p + 1)}); err != nil {
					fail(err)
				}
				if i%7 == 3 {
					time.Sleep(20 * time.Microsecond)
				}
			}
		}()
	}
	wg.Add(1)
	go func() {
		defer wg.Done()
		for i := 0; i < c.Flushes; i++ {
			if _, err := fl.Flush(); err != nil {
				fail(err)
			}
			time.Sleep(30 * time.Microsecond)
		}
	}()
	got := locCount{}
	var gotMu sync.Mutex
	consume := func(p string) {
		ents, err := parseFreelist(p)
		if err != nil {
			fail(err)
			return
		}
		gotMu.Lock()
		for _, e := range ents {
			got[types.Block{Offset: types.Position(e.Offset), Size: types.Size(e.Size)}]++
		}
		gotMu.Unlock()
	}
	wg.Add(1)
	go func() {
		defer wg.Done()
		for i := 0; i < c.ToGCs; i++ {
			// The consumer protocol of GC: flush, take the .gc file, process, remove.
			if _, err := fl.Flush(); err != nil {
				fail(err)
			}
			p, err := fl.ToGC()
			if err != nil {
				fail(err)
				return
			}
			if inFlight.Load() > 0 {
				handoversInFlight++
			}
			consume(p)
			if err = os.Remove(p); err != nil {
				fail(err)
			}
			time.Sleep(40 * time.Microsecond)
		}
	}()
	wg.Wait()
	if firstErr != nil {
		return handoversInFlight, viol("freelist-error|concurrent|"+errClass(firstErr), 0, "freelist call returned error: %v", firstErr)
	}
	if err := fl.Close(); err != nil {
		return handoversInFlight, viol("freelist-error|close|"+errClass(err), 0, "Close: %v", err)
	}
	consume(path)
	if _, err := os.Stat(path + ".gc"); err == nil {
		consume(path + ".gc")
	}
	for p := 0; p < c.Putters; p++ {
		for i := 0; i < c.PerPut; i++ {
			b := types.Block{Offset: types.Position(p*100000 + i + 1), Size: types.Size(p + 1)}
			switch n := got[b]; {
			case n == 0:
				return handoversInFlight, viol("freelist-entry-lost|concurrent|", 0, "entry %d/%d was Put but is in no hand-over batch and not in the final file", b.Offset, b.Size)
			case n > 1:
				return handoversInFlight, viol("freelist-entry-duplicated|concurrent|", 0, "entry %d/%d was Put once but delivered %d times", b.Offset, b.Size, n)
			}
			delete(got, b)
		}
	}
	for i := 0; i < c.Pregrow; i++ {
		b := types.Block{Offset: types.Position(9000000 + i), Size: 9}
		if got[b] != 1 {
			return handoversInFlight, viol("freelist-entry-lost|concurrent|pregrow", 0, "entry %d/%d of the sequential warm-up was delivered %d times", b.Offset, b.Size, got[b])
		}
		delete(got, b)
	}
	if len(got) != 0 {
		return handoversInFlight, viol("freelist-entry-invented|concurrent|", 0, "entries never Put were delivered: %v", got)
	}
	return handoversInFlight, nil
}

func TestC13(t *testing.T) {
	ev := newEvidence("C13", "exploration", c13Rule)
	defer ev.Write()
	own := map[string]bool{"recorded-entry-lost-by-crash": true, "freed-location-lost": true, "freed-location-duplicated": true, "unexpected-freed-location": true,
		"current-location-recorded": true, "current-location-handed-to-gc": true, "delivered-not-deleted": true, "location-changed": true}
	judge := func(v *Violation) *Violation {
		if v == nil {
			return nil
		}
		clause := v.Signature
		for i, ch := range clause {
			if ch == '|' {
				clause = clause[:i]
				break
			}
		}
		if !own[clause] {
			ev.Class("foreign-failure-not-freelist", 1)
			return nil
		}
		return v
	}
	if envReplay != "" {
		r := readReplayRaw(envReplay)
		if len(r.Signature) >= 8 && r.Signature[:8] == "freelist" {
			var c FLCase
			readReplay(envReplay, &c)
			for i := 0; i < 200; i++ {
				_, v := runFL(c)
				ev.Record(c, true)
				if v != nil {
					ev.Report(v, c)
					t.Fatalf("replay: %v", v)
				}
			}
			return
		}
		if bytes.Contains(r.Case, []byte(`"fg"`)) {
			var c SuspCase
			readReplay(envReplay, &c)
			for i := 0; i < 10; i++ {
				var v *Violation
				if strings.Contains(r.Signature, "overlapping-gc-requests") {
					_, v = runC13Overlap(c)
				} else {
					_, v = runC13Inside(c)
				}
				ev.Record(c, true)
				if v = judge(v); v != nil {
					ev.Report(v, c)
					t.Fatalf("replay: %v", v)
				}
			}
			return
		}
		var c SeqCase
		readReplay(envReplay, &c)
		for i := 0; i < 10; i++ {
			st, _, v := runC13(c)
			ev.Record(c, true, seqClasses(c, st)...)
			if v = judge(v); v != nil {
				ev.Report(v, c)
				t.Fatalf("replay: %v", v)
			}
		}
		return
	}
	for _, f := range regressFiles("C13") {
		var c SeqCase
		readReplay(f, &c)
		st, _, v := runC13(c)
		ev.Record(c, true, append(seqClasses(c, st), "regression-case")...)
		if v = judge(v); v != nil && ev.Report(v, c) {
			t.Fatalf("regression case %s: %v", f, v)
		}
	}
	setRapidChecks(budget(12000, 25000))
	rapid.Check(t, func(rt *rapid.T) {
		if pastDeadline() {
			ev.Skip()
			return
		}
		c := genC13(rt)
		st, cs, v := runC13(c)
		cl := seqClasses(c, st)
		if cs.Handovers > 0 {
			cl = append(cl, "handover")
		}
		ev.Record(c, cs.Expected >= 3 && cs.Handovers >= 2 && cs.Delivered >= 1, cl...)
		if v = judge(v); v != nil && ev.Report(v, c) {
			rt.Fatalf("%v", v)
		}
	})
	// (a') volume between two hand-overs: one batch of several hundred entries.
	setRapidChecks(budget(24, 40))
	rapid.Check(t, func(rt *rapid.T) {
		if pastDeadline() {
			ev.Skip()
			return
		}
		c := genC13Bulk(rt)
		_, cs, v := runC13(c)
		ev.Record(struct {
			Cfg   Config
			NKeys int
			NOps  int
			Base  HexBytes
		}{c.Cfg, len(c.Keys), len(c.Ops), c.Keys[0].Digest}, cs.Delivered >= 300, "bulk-handover", fmt.Sprintf("bulk-delivered>=%d", cs.Delivered/100*100))
		if v = judge(v); v != nil && ev.Report(v, c) {
			rt.Fatalf("%v", v)
		}
	})
	// (c) crash clause: entries that had reached the freelist file or the
	// handed-over .gc file when the process died are not lost by the
	// hand-over protocol: after recovery, a flush and two GC cycles, the
	// record of every such entry is dead (marked deleted, truncated away or
	// its file gone). Workloads of the C03 generator (multihash primary) run
	// under the crash recorder; drawn images, mostly inside GC.
	crashImages := 0
	checkCrashImage := func(cfg Config, st crashState) *Violation {
		var ents []fsckEntry
		for _, name := range []string{idxBase + ".free", idxBase + ".free.gc"} {
			b := st.Image[name]
			for p := 0; p+12 <= len(b); p += 12 {
				ents = append(ents, fsckEntry{Offset: u64(b[p:]), Size: u32(b[p+8:])})
			}
		}
		if len(ents) == 0 {
			return nil
		}
		dir := newScratch("flrec")
		defer os.RemoveAll(dir)
		st.Image.writeTo(dir)
		s, err := openStore(dir, cfg)
		if err != nil {
			return nil // C03's subject
		}
		defer closeQuietly(s)
		mp := mhPrimaryOf(s)
		if mp == nil {
			return nil
		}
		site := crashSite(RecoveryReplay{Point: st.Point, Torn: st.Torn})
		return guard(0, "freelist-recovery", func() *Violation {
			for i := 0; i < 2; i++ {
				if err := s.Flush(); err != nil {
					return nil
				}
				if _, err := mp.GC(bg, 100); err != nil {
					return nil // an error return of a cycle is not a violation by itself
				}
			}
			P := effectiveSize(cfg.PrimSize)
			for _, e := range ents {
				fn := uint32(e.Offset / P)
				data, err := os.ReadFile(filepath.Join(dir, fmt.Sprintf("%s.%d", dataBase, fn)))
				if err != nil {
					continue // file gone
				}
				local := e.Offset - uint64(fn)*P
				if local+4 > uint64(len(data)) {
					continue // truncated away
				}
				raw := u32(data[local:])
				if raw&fsckDeleted == 0 && raw == e.Size {
					return viol("recorded-entry-lost-by-crash|"+site+"|", 0, "location %d/%d was in the freelist files when the process died, but after recovery, flush and two GC cycles its record is still not marked deleted", e.Offset, e.Size)
				}
			}
			return nil
		})
	}
	setRapidChecks(budget(700, 1500))
	rapid.Check(t, func(rt *rapid.T) {
		if pastDeadline() {
			ev.Skip()
			return
		}
		cc := genCrashCase(rt)
		cc.Seq.Cfg.Primary = "multihash"
		for i := range cc.Seq.Keys {
			cc.Seq.Keys[i].CidV0 = false
		}
		cr := runCrashWorkload(cc)
		if !cr.workloadOK || cr.total == 0 {
			ev.Class("crash:workload-failed(foreign)", 1)
			return
		}
		// Prefer states inside the GC hand-over and freelist processing.
		var gcStates []int
		for i, m := range cr.rec.meta {
			if strings.HasPrefix(m.Point, "pgc.") || strings.HasPrefix(m.Point, "fl.") {
				gcStates = append(gcStates, i)
			}
		}
		for j, p := range cc.Picks[:4] {
			var st crashState
			switch {
			case j < 2 && len(gcStates) > 0:
				st = cr.rec.pointState(gcStates[p%len(gcStates)])
			case j == 2 && len(cr.specs) > 0:
				spec := cr.specs[p%len(cr.specs)]
				st = cr.rec.tornState(spec, (p/7919)%spec.count())
			default:
				st = cr.state(p % len(cr.rec.snaps))
			}
			crashImages++
			inGC := strings.HasPrefix(st.Point, "pgc.") || strings.HasPrefix(st.Point, "fl.")
			v := checkCrashImage(cc.Seq.Cfg, st)
			ev.Record(struct{ H string }{st.Image.hash()}, inGC && (len(st.Image[idxBase+".free"]) >= 12 || len(st.Image[idxBase+".free.gc"]) >= 12), "crash:image")
			if v != nil {
				rp := buildReplay(cc, st, cr.models)
				if ev.Report(v, rp) {
					rt.Fatalf("%v", v)
				}
			}
		}
	})
	ev.Extra["crash_images_checked"] = crashImages
	setRapidChecks(budget(1500, 3000))
	rapid.Check(t, func(rt *rapid.T) {
		if pastDeadline() {
			ev.Skip()
			return
		}
		c := genFL(rt)
		n, v := runFL(c)
		ev.Record(c, n >= 2, "freelist-concurrent")
		if v != nil && ev.Report(v, c) {
			rt.Fatalf("%v", v)
		}
	})
	if t.Failed() {
		return
	}
	// (d) a call inside a suspended flush, then the books.
	setRapidChecks(budget(600, 2000))
	rapid.Check(t, func(rt *rapid.T) {
		if pastDeadline() {
			ev.Skip()
			return
		}
		c := genC13Inside(rt)
		hit, v := runC13Inside(c)
		cl := []string{"call-inside-suspended-flush"}
		if hit {
			cl = append(cl, "call-inside-suspended-flush:superseded-inside@"+c.PointFlush)
		}
		ev.Record(c, hit, cl...)
		if v = judge(v); v != nil && ev.Report(v, c) {
			rt.Fatalf("%v", v)
		}
	})
	if t.Failed() {
		return
	}
	// (e) concurrently requested GC cycles.
	setRapidChecks(budget(300, 1000))
	rapid.Check(t, func(rt *rapid.T) {
		if pastDeadline() {
			ev.Skip()
			return
		}
		c := genC13Inside(rt)
		n, v := runC13Overlap(c)
		ev.Record(c, n >= 2, "overlapping-gc-requests")
		if v = judge(v); v != nil && ev.Report(v, c) {
			rt.Fatalf("%v", v)
		}
	})
	ev.finish(t)
}
