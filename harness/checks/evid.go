package checks

import (
	"encoding/json"
	"flag"
	"fmt"
	"os"
	"path/filepath"
	"regexp"
	"runtime"
	"strconv"
	"strings"
	"sync"
	"sync/atomic"
	"testing"
	"time"
)

// Run parameters come from the driver through the environment.
var (
	envTier     = getenv("VERIF_TIER", "quick")
	envOut      = os.Getenv("VERIF_OUT")                              // result file of this shard
	envReplays  = getenv("VERIF_REPLAY_DIR", "/verif/replays")        // where failing cases are saved
	envKnown    = getenv("VERIF_KNOWN", "/verif/known_findings.json") // known findings (read-only)
	envShard    = atoi(getenv("VERIF_SHARD", "0"))                    // shard number
	envShards   = atoi(getenv("VERIF_SHARDS", "1"))                   // number of shards
	envSeed     = atoi(getenv("VERIF_SEED", "1"))                     // user seed
	envScale    = atof(getenv("VERIF_SCALE", "1"))                    // multiplies case counts
	envDeadline = atoi(getenv("VERIF_DEADLINE", "0"))                 // unix time after which cases are skipped
	envReplay   = os.Getenv("VERIF_REPLAY")                           // replay this file instead of generating
)

func getenv(k, d string) string {
	if v := os.Getenv(k); v != "" {
		return v
	}
	return d
}

func atoi(s string) int {
	n, _ := strconv.Atoi(s)
	return n
}

func atof(s string) float64 {
	f, err := strconv.ParseFloat(s, 64)
	if err != nil {
		return 1
	}
	return f
}

func thorough() bool { return envTier == "thorough" }

// budget returns the case count for this shard: quick/thorough totals are
// divided over the shards and scaled.
func budget(quick, thoroughPerShard int) int {
	n := quick
	if thorough() {
		n = thoroughPerShard
	} else if envShards > 1 {
		n = (quick + envShards - 1) / envShards
	}
	n = int(float64(n) * envScale)
	if n < 1 {
		n = 1
	}
	return n
}

func pastDeadline() bool {
	return envDeadline != 0 && time.Now().Unix() > int64(envDeadline)
}

// setRapidChecks sets the number of cases of the next rapid.Check call.
func setRapidChecks(n int) {
	if err := flag.Set("rapid.checks", strconv.Itoa(n)); err != nil {
		panic(err)
	}
}

// ViolationRecord is a violation as reported to the driver.
type ViolationRecord struct {
	Property  string `json:"property"`
	Signature string `json:"signature"`
	Detail    string `json:"detail"`
	Replay    string `json:"replay"`
	Known     string `json:"known,omitempty"` // id of the matching open known finding
}

// Evidence accumulates what one shard of one check covered.
type Evidence struct {
	mu          sync.Mutex
	Property    string                 `json:"property"`
	Level       string                 `json:"level"`
	Rule        string                 `json:"rule"`
	Evaluations int                    `json:"evaluations"`
	Skipped     int                    `json:"skipped_after_deadline"`
	NonTrivial  map[string]bool        `json:"nontrivial_hashes"`
	NTDisjoint  int                    `json:"nontrivial_disjoint_count"` // non-trivial cases of enumerations that are distinct by construction
	Classes     map[string]int         `json:"classes"`
	Samples     []interface{}          `json:"samples"`
	Violations  []ViolationRecord      `json:"violations"`
	Excluded    map[string]int         `json:"excluded_known"`
	Extra       map[string]interface{} `json:"extra"`
	Exhaustive  bool                   `json:"exhaustive"`
	Assumptions []string               `json:"assumptions"`
	start       time.Time
	known       []knownFinding
	replaySeq   int
	progress    atomic.Int64 // bumped by every recorded or skipped case
}

func newEvidence(property, level, rule string) *Evidence {
	e := &Evidence{
		Property:   property,
		Level:      level,
		Rule:       rule,
		NonTrivial: map[string]bool{},
		Classes:    map[string]int{},
		Excluded:   map[string]int{},
		Extra:      map[string]interface{}{},
		start:      time.Now(),
		known:      loadKnown(property),
	}
	watchdogStart(e, func() interface{} {
		if c := currentSeqCase.Load(); c != nil {
			return *c
		}
		return nil
	})
	go e.progressWatch()
	return e
}

// progressWatch ends a process in which no case has completed for a very long
// time (the longest legitimate case of any check takes well under a minute).
// This is not a verdict: the goroutine dump goes to the output, which the
// driver keeps, and the run counts as infrastructure trouble (exit 2).
func (e *Evidence) progressWatch() {
	last, since := int64(-1), time.Now()
	for {
		time.Sleep(5 * time.Second)
		if n := e.progress.Load(); n != last {
			last, since = n, time.Now()
			continue
		}
		if time.Since(since) < 6*time.Minute {
			continue
		}
		buf := make([]byte, 4<<20)
		buf = buf[:runtime.Stack(buf, true)]
		fmt.Fprintf(os.Stderr, "NO PROGRESS for %s after %d cases of %s; goroutines:\n%s\n", time.Since(since).Round(time.Second), last, e.Property, buf)
		os.Exit(4)
	}
}

// Record notes one evaluated case.
func (e *Evidence) Record(c interface{}, nontrivial bool, classes ...string) {
	e.progress.Add(1)
	e.mu.Lock()
	defer e.mu.Unlock()
	e.Evaluations++
	for _, cl := range classes {
		e.Classes[cl]++
	}
	if nontrivial {
		h := caseHash(c)
		if !e.NonTrivial[h] {
			e.NonTrivial[h] = true
			if len(e.Samples) < 3 {
				e.Samples = append(e.Samples, c)
			}
		}
	}
}

// RecordEnumerated notes one case of an enumeration whose cases are distinct
// by construction (also across shards), so no hash needs to be kept.
func (e *Evidence) RecordEnumerated(c interface{}, nontrivial bool, classes ...string) {
	e.progress.Add(1)
	e.mu.Lock()
	defer e.mu.Unlock()
	e.Evaluations++
	for _, cl := range classes {
		e.Classes[cl]++
	}
	if nontrivial {
		e.NTDisjoint++
		if len(e.Samples) < 3 {
			e.Samples = append(e.Samples, c)
		}
	}
}

func (e *Evidence) Class(name string, n int) {
	e.progress.Add(1)
	e.mu.Lock()
	e.Classes[name] += n
	e.mu.Unlock()
}

func (e *Evidence) Skip() {
	e.progress.Add(1)
	e.mu.Lock()
	e.Skipped++
	e.mu.Unlock()
}

// Report classifies a violation. It returns true if the violation is new
// (not an open known finding) and must fail the check. The case is saved as a
// replay file either way; for new violations the file name is stable so that
// shrinking overwrites it and the last (minimal) one survives.
func (e *Evidence) Report(v *Violation, c interface{}) bool {
	// A scratch device that is full, or a process that ran out of descriptors
	// or memory, makes calls fail that would otherwise succeed: trouble of the
	// environment the check runs in, never a verdict about the code (no check
	// injects these faults).
	for _, sym := range []string{"no space left on device", "too many open files", "cannot allocate memory", "disk quota exceeded"} {
		if strings.Contains(v.Detail, sym) || strings.Contains(v.Signature, sym) {
			panic(infraError{fmt.Errorf("environment trouble, not a verdict: %s: %s", v.Signature, v.Detail)})
		}
	}
	e.mu.Lock()
	defer e.mu.Unlock()
	v.Property = e.Property
	if debugSigs != nil {
		debugSigs[v.Signature]++
	}
	if id := matchKnown(e.known, v.Signature); id != "" {
		e.Excluded[id]++
		path := filepath.Join(envReplays, e.Property, "known-"+id+".json")
		if _, err := os.Stat(path); err != nil {
			writeReplay(path, e.Property, v, c)
		}
		found := false
		for _, r := range e.Violations {
			if r.Known == id {
				found = true
			}
		}
		if !found {
			e.Violations = append(e.Violations, ViolationRecord{e.Property, v.Signature, v.Detail, path, id})
		}
		return false
	}
	path := filepath.Join(envReplays, e.Property, fmt.Sprintf("fail-%s-s%d-%d.json", envTier, envSeed, envShard))
	writeReplay(path, e.Property, v, c)
	rec := ViolationRecord{e.Property, v.Signature, v.Detail, path, ""}
	// Keep only the latest record for the replay path (shrinking overwrites).
	for i, r := range e.Violations {
		if r.Replay == path {
			e.Violations[i] = rec
			return true
		}
	}
	e.Violations = append(e.Violations, rec)
	return true
}

// Replay is the on-disk form of a failing case.
type Replay struct {
	Property  string          `json:"property"`
	Signature string          `json:"signature"`
	Detail    string          `json:"detail"`
	Case      json.RawMessage `json:"case"`
}

func writeReplay(path, property string, v *Violation, c interface{}) {
	os.MkdirAll(filepath.Dir(path), 0o755)
	cb, _ := json.Marshal(c)
	b, _ := json.MarshalIndent(Replay{property, v.Signature, v.Detail, cb}, "", " ")
	if err := os.WriteFile(path, b, 0o644); err != nil {
		fmt.Fprintf(os.Stderr, "cannot write replay file %s: %v\n", path, err)
	}
}

func readReplay(path string, c interface{}) Replay {
	var r Replay
	b, err := os.ReadFile(path)
	if err != nil {
		panic(infraError{err})
	}
	if err = json.Unmarshal(b, &r); err != nil {
		panic(infraError{err})
	}
	if err = json.Unmarshal(r.Case, c); err != nil {
		panic(infraError{err})
	}
	return r
}

// Write stores the shard result where the driver expects it.
func (e *Evidence) Write() {
	e.mu.Lock()
	defer e.mu.Unlock()
	e.Extra["wall_s"] = time.Since(e.start).Seconds()
	if envOut == "" {
		return
	}
	b, err := json.Marshal(e)
	if err != nil {
		fmt.Fprintf(os.Stderr, "cannot encode evidence: %v\n", err)
		return
	}
	if err = os.WriteFile(envOut, b, 0o644); err != nil {
		fmt.Fprintf(os.Stderr, "cannot write evidence: %v\n", err)
	}
}

// ---------------------------------------------------------------------------
// Known findings

type knownFinding struct {
	Property  string `json:"property"`
	ID        string `json:"id"`
	Status    string `json:"status"` // "open" suppresses, "fixed" suppresses nothing
	Signature string `json:"signature"`
	// SignatureRegex, if set, identifies the finding by its call site: all
	// crash / preemption points of one window share one root cause.
	SignatureRegex string `json:"signature_regex,omitempty"`
	What           string `json:"what"`
	Commit         string `json:"commit,omitempty"`
}

func loadKnown(property string) []knownFinding {
	b, err := os.ReadFile(envKnown)
	if err != nil {
		return nil
	}
	var doc struct {
		Findings []knownFinding `json:"findings"`
	}
	if err = json.Unmarshal(b, &doc); err != nil {
		panic(infraError{fmt.Errorf("known findings file is not valid: %w", err)})
	}
	var out []knownFinding
	for _, k := range doc.Findings {
		if k.Property == property && k.Status == "open" {
			out = append(out, k)
		}
	}
	return out
}

func matchKnown(known []knownFinding, sig string) string {
	for _, k := range known {
		if k.Signature != "" && k.Signature == sig {
			return k.ID
		}
		if k.SignatureRegex != "" {
			if ok, err := regexp.MatchString(k.SignatureRegex, sig); err == nil && ok {
				return k.ID
			}
		}
	}
	return ""
}

// finish fails the test if new violations were recorded.
func (e *Evidence) finish(t *testing.T) {
	e.mu.Lock()
	n := 0
	for _, v := range e.Violations {
		if v.Known == "" {
			n++
		}
	}
	e.mu.Unlock()
	if n > 0 && !t.Failed() {
		t.Errorf("%d new violation(s) recorded", n)
	}
}

// regressFiles lists the curated regression cases of a property (shrunk
// failures of defects that were found by the check and fixed since).
func regressFiles(property string) []string {
	if envShard != 0 {
		return nil
	}
	dir := getenv("VERIF_REGRESS", "/verif/regress")
	m, _ := filepath.Glob(filepath.Join(dir, property, "*.json"))
	return m
}

func readReplayRaw(path string) Replay {
	var r Replay
	b, err := os.ReadFile(path)
	if err != nil {
		panic(infraError{err})
	}
	if err = json.Unmarshal(b, &r); err != nil {
		panic(infraError{err})
	}
	return r
}

// debugSigs, when non-nil, counts every reported signature (used by the
// development-time enumeration of a known finding's window).
var debugSigs map[string]int
