package checks

import (
	"encoding/binary"
	"fmt"
	"os"
	"sync"
	"sync/atomic"
	"time"

	"pgregory.net/rapid"
)

// Volume-crash sub-campaign (C03): crash images of windows that have no named
// point inside them. Workers overwrite their own keys with increasing version
// numbers, free-running, while the harness calls Flush; the store is not
// started and the collectors are off, so only those Flush calls write files.
// Right after a Flush call has returned the workers are paused between two
// calls and the directory is copied: the image of a process crash at that
// moment. The image is opened, and every key must read a version that is at
// least the one acknowledged before that Flush call began and at most the
// last one attempted.

// VCCase is one such run.
type VCCase struct {
	Cfg     Config    `json:"cfg"`
	Keys    []KeySpec `json:"keys"` // key i is owned by worker i % Workers
	Workers int       `json:"vc_workers"`
	Rounds  int       `json:"vc_rounds"`
	PauseUS int       `json:"pause_us"` // time the workers run before each Flush call
	VLen    int       `json:"vlen"`
	Burst   int       `json:"burst"` // calls per worker and round (bounds the number of files)
}

const volCrashRuleText = "Volume-crash sub-campaign: 2-8 free-running workers overwrite their own keys with increasing version numbers (4-40 calls per worker between two images) while the harness calls Flush on a store that is not started and has its collectors off (so only those calls write files); right after a Flush call returned, the workers are paused between two calls and the directory is copied (a process crash at that moment); the copy is opened and every key must be found with a version at least the one acknowledged before that Flush call began and at most the last one attempted - this reaches windows inside the flush pipeline that have no named point"

func genVolCrash(t *rapid.T) VCCase {
	var c VCCase
	c.Cfg = genConfig(t, cfgGenOpts{smallBits: true, smallFiles: true})
	c.Cfg.Immutable = false
	c.Cfg.Bits = []uint8{8, 9, 12}[rapid.IntRange(0, 2).Draw(t, "vcbits")]
	c.Cfg.IdxSize = []uint32{64, 256, 1024, 4096, 0}[rapid.IntRange(0, 4).Draw(t, "vcidx")]
	c.Cfg.PrimSize = []uint32{256, 1024, 4096, 0}[rapid.IntRange(0, 3).Draw(t, "vcprim")]
	c.Workers = rapid.IntRange(2, 8).Draw(t, "vcworkers")
	c.Keys = extendKeys(genKeys(t, c.Cfg, 8, 24), 2*c.Workers)
	c.Rounds = rapid.IntRange(3, 10).Draw(t, "vcrounds")
	c.PauseUS = []int{0, 50, 200, 1000}[rapid.IntRange(0, 3).Draw(t, "vcpause")]
	c.VLen = []int{8, 40, 200}[rapid.IntRange(0, 2).Draw(t, "vcvlen")]
	c.Burst = []int{4, 12, 40}[rapid.IntRange(0, 2).Draw(t, "vcburst")]
	return c
}

func vcValue(k int, version uint64, vlen int) []byte {
	b := make([]byte, 12+vlen)
	binary.LittleEndian.PutUint32(b, uint32(k))
	binary.LittleEndian.PutUint64(b[4:], version)
	for i := 12; i < len(b); i++ {
		b[i] = byte(k*31 + int(version)*7 + i)
	}
	return b
}

type vcStats struct {
	images int
	puts   int64
}

func runVolCrash(c VCCase, withFsck bool) (st vcStats, v *Violation) {
	dir := newScratch("vc")
	defer os.RemoveAll(dir)
	s, err := openStore(dir, c.Cfg)
	if err != nil {
		panic(infraError{err})
	}
	defer closeQuietly(s)
	n := len(c.Keys)
	enc := func(k int) []byte { return c.Keys[k].Encode(c.Cfg.Primary, false) }
	acked := make([]atomic.Uint64, n)
	attempted := make([]atomic.Uint64, n)
	for k := 0; k < n; k++ {
		attempted[k].Store(1)
		if err := s.Put(enc(k), vcValue(k, 1, c.VLen)); err != nil {
			return st, nil // judged elsewhere
		}
		acked[k].Store(1)
	}
	if err := s.Flush(); err != nil {
		return st, nil
	}
	var pause atomic.Bool
	var stop atomic.Bool
	var idle sync.WaitGroup
	resume := make(chan struct{})
	var resumeMu sync.Mutex
	var werr atomic.Value
	var wg sync.WaitGroup
	var puts atomic.Int64
	for w := 0; w < c.Workers; w++ {
		wg.Add(1)
		go func(w int) {
			defer wg.Done()
			i := 0
			left := c.Burst
			for !stop.Load() {
				if left <= 0 && !pause.Load() {
					time.Sleep(20 * time.Microsecond) // this round's share is used up
					continue
				}
				if pause.Load() {
					left = c.Burst
					resumeMu.Lock()
					ch := resume
					resumeMu.Unlock()
					idle.Done()
					<-ch
					continue
				}
				// next own key
				k := (w + c.Workers*i) % n
				for k%c.Workers != w {
					k = (k + 1) % n
				}
				i++
				ver := attempted[k].Load() + 1
				attempted[k].Store(ver)
				if err := s.Put(enc(k), vcValue(k, ver, c.VLen)); err != nil {
					werr.Store(err)
					return
				}
				acked[k].Store(ver)
				puts.Add(1)
				left--
			}
		}(w)
	}
	finish := func() {
		stop.Store(true)
		resumeMu.Lock()
		close(resume)
		resumeMu.Unlock()
		wg.Wait()
	}
	for round := 0; round < c.Rounds && v == nil; round++ {
		if c.PauseUS > 0 {
			time.Sleep(time.Duration(c.PauseUS) * time.Microsecond)
		}
		before := make([]uint64, n)
		for k := range before {
			before[k] = acked[k].Load()
		}
		if err := s.Flush(); err != nil || werr.Load() != nil {
			break // a failing call is judged by C05, not here
		}
		// Pause the workers between two calls.
		idle.Add(c.Workers)
		pause.Store(true)
		done := make(chan struct{})
		go func() { idle.Wait(); close(done) }()
		select {
		case <-done:
		case <-time.After(20 * time.Second):
			// a worker died (error): give up on this case
			pause.Store(false)
			finish()
			return st, nil
		}
		img := readDirImage(dir)
		last := make([]uint64, n)
		for k := range last {
			last[k] = attempted[k].Load()
		}
		// resume
		resumeMu.Lock()
		old := resume
		resume = make(chan struct{})
		pause.Store(false)
		close(old)
		resumeMu.Unlock()
		st.images++
		v = vcCheckImage(c, img, before, last, round, withFsck)
	}
	finish()
	st.puts = puts.Load()
	return st, v
}

func vcCheckImage(c VCCase, img dirImage, before, last []uint64, round int, withFsck bool) *Violation {
	dir2 := newScratch("vcrec")
	defer os.RemoveAll(dir2)
	img.writeTo(dir2)
	return guard(round, "volume-crash-recovery", func() *Violation {
		s2, err := openStore(dir2, c.Cfg)
		if err != nil {
			return viol("recovery-open-fails|crash-after-flush-under-load|"+errClass(err), round, "the image taken right after a Flush call returned (workers paused between calls) cannot be opened: %v", err)
		}
		defer closeQuietly(s2)
		if withFsck {
			// The independent file check of C07, before anything is read.
			live := s2.Index().VerifBuckets()
			tbl := make([]uint64, len(live))
			for i, p := range live {
				tbl[i] = uint64(p)
			}
			if _, clause, detail := fsck(fsckInput{Dir: dir2, Cfg: c.Cfg, Live: tbl}); clause != "" {
				return viol("fsck|after-recovery@crash-after-flush-under-load|"+clause, round, "%s", detail)
			}
			return nil
		}
		for k := range c.Keys {
			got, found, err := s2.Get(c.Keys[k].Encode(c.Cfg.Primary, false))
			if err != nil {
				return viol("recovery-get-error|crash-after-flush-under-load|"+errClass(err), round, "key %d: Get on the recovered image returned %v", k, err)
			}
			if !found {
				return viol("recovery-absent-but-durable|crash-after-flush-under-load|", round, "round %d: key %d is absent after recovery; version %d of it was acknowledged before the last completed Flush call began and it was never removed", round, k, before[k])
			}
			if len(got) < 12 || int(binary.LittleEndian.Uint32(got)) != k {
				return viol("recovery-foreign-bytes|crash-after-flush-under-load|", round, "round %d: key %d reads %s, which was never written for it", round, k, shortBytes(got))
			}
			ver := binary.LittleEndian.Uint64(got[4:])
			if string(got) != string(vcValue(k, ver, c.VLen)) {
				return viol("recovery-foreign-bytes|crash-after-flush-under-load|", round, "round %d: key %d reads bytes that match no version written for it", round, k)
			}
			if ver < before[k] {
				return viol("recovery-stale-value|crash-after-flush-under-load|", round, "round %d: key %d reads version %d after recovery, but version %d was acknowledged before the last completed Flush call began", round, k, ver, before[k])
			}
			if ver > last[k] {
				return viol("recovery-future-value|crash-after-flush-under-load|", round, "round %d: key %d reads version %d, the last one attempted was %d", round, k, ver, last[k])
			}
		}
		return nil
	})
}

var _ = fmt.Sprintf
