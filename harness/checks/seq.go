package checks

import (
	"bytes"
	"context"
	"errors"
	"fmt"
	"os"
	"path/filepath"
	"regexp"
	"sort"
	"strings"
	"sync/atomic"

	"github.com/ipld/go-storethehash/store"
	"github.com/ipld/go-storethehash/store/index"
	"github.com/ipld/go-storethehash/store/types"
	"github.com/ipld/go-storethehash/store/vhook"
)

// Op is one step of a sequential history.
type Op struct {
	K    string `json:"k"`
	Key  int    `json:"key,omitempty"`
	Alt  bool   `json:"alt,omitempty"`  // use the alias encoding of the key
	VLen int    `json:"vlen,omitempty"` // put: value length
	VNil bool   `json:"vnil,omitempty"` // put: zero-length value passed as nil
	A    int    `json:"a,omitempty"`    // reopen: mode; pgc: low-use percent; igc: scanFree
	B    int    `json:"b,omitempty"`    // gc: budget (0 = unlimited)
}

// Operation kinds.
const (
	opPut      = "put"
	opRePut    = "reput" // put the value the key currently has (new value if absent)
	opGet      = "get"
	opHas      = "has"
	opSize     = "size"
	opRemove   = "rm"
	opFlush    = "flush"
	opIter     = "iter"
	opCheckAll = "checkall"
	opReopen   = "reopen" // A: 0 snapshot, 1 rescan (snapshot deleted), 2 unusable snapshot
	opPGC      = "pgc"
	opIGC      = "igc"
	opReBits   = "rebits"   // close, reopen with index bit size A (translation)
	opMismatch = "mismatch" // close, try to open with another file size (A: 1 index, 2 primary; B: size; Key: 8..24 = also with this bit size), reopen properly
)

// SeqCase is a sequential history on one store.
type SeqCase struct {
	Cfg  Config    `json:"cfg"`
	Keys []KeySpec `json:"keys"`
	Ops  []Op      `json:"ops"`
}

// SeqStats describes what a run exercised; used for the non-triviality rules.
type SeqStats struct {
	SharedPrefixPair     bool // two put keys in one bucket sharing >=1 byte after the bucket prefix
	Supersede            int  // overwrites with a new value + removals of present keys
	Rejected             int  // immutable puts rejected
	ReadAfterFlush       bool
	Flushes              int
	Reopens              [3]int
	ReopenAfterWork      bool // reopen preceded by rollover / removal of flushed key / GC change / empty list
	GCChanged            int  // GC cycles that changed at least one byte on disk
	GCInterrupted        int
	GCWithUnflushed      int
	IndexFiles           int
	PrimaryFiles         int
	EmptyValues          int
	Steps                int
	ReadAfterGC          bool
	GCKinds              map[string]bool
	GCErrors             []string // error returns of GC cycles (not violations by themselves)
	SupersededFlushed    bool     // a key whose entry had been flushed was overwritten or removed
	Translations         int
	TranslatedNT         bool // a translation of >=6 keys, >=2 sharing a bucket afterwards, from >=2 index files
	BitPairs             []string
	Mismatches           int
	MismatchesWithBits   int
	FaultyRebitsRefused  int
	FaultyRebitsAccepted int
}

// seqOpts selects optional behaviour of the runner.
type seqOpts struct {
	Skip          map[string]bool // op kinds executed as no-ops (for attribution)
	FullReopen    bool            // reopen compares snapshot / rescan / unusable-snapshot copies (C02)
	AfterQuiet    func(r *seqRunner, step int, what string) *Violation
	AfterClose    func(r *seqRunner, step int) *Violation // called with the store closed
	Epilogue      func(r *seqRunner, step int) *Violation // runs after the last op, before the final read-back
	Before        func(r *seqRunner, step int, op Op)
	After         func(r *seqRunner, step int, op Op, failed bool) *Violation
	FlushBeforeGC bool // every GC action is preceded by a Flush
	FixedLowUse   int  // >0: primary GC always uses this threshold
	TrackGC       bool // hash the directory around GC cycles
	KeepDir       bool
	NoFinalIter   bool
	Points        *pointCounter     // counts named points passed during the run
	Hook          func(name string) // handler installed for the named points during the run
	OnDir         func(dir string)  // called with the scratch directory before the store is opened
}

type seqRunner struct {
	c     SeqCase
	o     seqOpts
	dir   string
	s     *store.Store
	model map[string][]byte
	stats SeqStats

	flushedSinceRead bool
	removedFlushed   bool
	everFlushed      map[string]bool // digests whose current entry was flushed
	workSinceOpen    bool
	dirtyForReopen   bool
	gcSinceRead      bool
	aux              interface{} // scratch space of the property-specific callbacks
	// held: the last few slices Get returned, with a private copy of what they
	// held then. A returned value belongs to the caller: later calls must not
	// change it (a map would not).
	held []heldValue
}

type heldValue struct {
	digest []byte
	got    []byte // the slice as returned, not copied
	want   []byte // private copy taken at return time
	step   int
}

// checkHeld verifies that values returned earlier still read the same.
func (r *seqRunner) checkHeld(i int, kind string) *Violation {
	for _, h := range r.held {
		if !bytes.Equal(h.got, h.want) {
			return viol("returned-value-changed-later|"+kind+"|", i, "the value Get(%x) returned at step %d was %s then; the same slice reads %s now, after later calls", h.digest, h.step, shortBytes(h.want), shortBytes(h.got))
		}
	}
	return nil
}

var digitsRE = regexp.MustCompile(`[0-9]+`)

func errClass(err error) string {
	if err == nil {
		return "nil"
	}
	s := err.Error()
	s = strings.ReplaceAll(s, scratchRoot, "")
	s = regexp.MustCompile(`vf-[A-Za-z0-9-]+`).ReplaceAllString(s, "")
	s = digitsRE.ReplaceAllString(s, "N")
	if len(s) > 60 {
		s = s[:60]
	}
	return s
}

// runSeq executes the case against the real store and the map model. The
// returned directory is removed unless KeepDir is set.
func runSeq(c SeqCase, o seqOpts) (st SeqStats, v *Violation) {
	currentSeqCase.Store(&c)
	r := &seqRunner{c: c, o: o, model: map[string][]byte{}, everFlushed: map[string]bool{}}
	r.stats.GCKinds = map[string]bool{}
	r.dir = newScratch("seq")
	if o.Points != nil {
		o.Points.install()
		defer o.Points.uninstall()
	}
	if o.OnDir != nil {
		o.OnDir(r.dir)
	}
	if o.Hook != nil {
		vhook.SetHandler(o.Hook)
		defer vhook.SetHandler(nil)
	}
	defer func() {
		if r.s != nil {
			// Best effort: the verdict is already decided.
			closeQuietly(r.s)
		}
		if !o.KeepDir {
			os.RemoveAll(r.dir)
		}
	}()

	v = guard(-1, "open", func() *Violation {
		s, err := openStore(r.dir, c.Cfg)
		if err != nil {
			return viol("open-error|open|"+errClass(err), -1, "cannot open fresh store: %v", err)
		}
		r.s = s
		return nil
	})
	if v != nil {
		return r.stats, v
	}
	r.computeSharedPrefix()

	for i, op := range c.Ops {
		r.stats.Steps++
		if o.Skip[op.K] {
			continue
		}
		i, op := i, op
		if o.Before != nil {
			o.Before(r, i, op)
		}
		v = guard(i, op.K, func() *Violation { return r.step(i, op) })
		if o.After != nil {
			if v2 := o.After(r, i, op, v != nil); v == nil {
				v = v2
			}
		}
		if v != nil {
			return r.stats, v
		}
	}
	n := len(c.Ops)
	if o.Epilogue != nil {
		v = guard(n, "epilogue", func() *Violation { return o.Epilogue(r, n) })
		if v != nil {
			return r.stats, v
		}
	}
	v = guard(n, "final", func() *Violation {
		if v := r.checkAll(n, "final"); v != nil {
			return v
		}
		if !o.NoFinalIter {
			if v := r.checkIter(n, "final"); v != nil {
				return v
			}
		}
		if v := r.checkAll(n, "final"); v != nil {
			return v
		}
		if o.AfterQuiet != nil {
			if err := r.s.Flush(); err != nil {
				return viol("flush-error|final|"+errClass(err), n, "Flush: %v", err)
			}
			if v := o.AfterQuiet(r, n, "final"); v != nil {
				return v
			}
		}
		r.countFiles()
		err := r.s.Close()
		s := r.s
		r.s = nil
		if err != nil {
			return viol("close-error|final|"+errClass(err), n, "Close: %v", err)
		}
		if err = s.Close(); err != nil {
			return viol("close-error|final|second-close", n, "second Close: %v", err)
		}
		if o.AfterClose != nil {
			return o.AfterClose(r, n)
		}
		return nil
	})
	return r.stats, v
}

func (r *seqRunner) computeSharedPrefix() {
	put := map[int]bool{}
	for _, op := range r.c.Ops {
		if op.K == opPut || op.K == opRePut {
			put[op.Key%len(r.c.Keys)] = true
		}
	}
	bits := r.c.Cfg.Bits
	strip := int(bits / 8)
	var idx []int
	for k := range put {
		idx = append(idx, k)
	}
	sort.Ints(idx)
	for a := 0; a < len(idx); a++ {
		for b := a + 1; b < len(idx); b++ {
			da, db := r.c.Keys[idx[a]].Digest, r.c.Keys[idx[b]].Digest
			if bytes.Equal(da, db) {
				continue
			}
			if bucketOf(da, bits) == bucketOf(db, bits) && len(da) > strip && len(db) > strip && da[strip] == db[strip] {
				r.stats.SharedPrefixPair = true
				return
			}
		}
	}
}

func (r *seqRunner) key(op Op) (KeySpec, []byte) {
	ks := r.c.Keys[op.Key%len(r.c.Keys)]
	return ks, ks.Encode(r.c.Cfg.Primary, op.Alt)
}

func (r *seqRunner) noteRead() {
	if r.flushedSinceRead {
		r.stats.ReadAfterFlush = true
	}
	if r.gcSinceRead {
		r.stats.ReadAfterGC = true
	}
}

func (r *seqRunner) step(i int, op Op) *Violation {
	switch op.K {
	case opPut, opRePut:
		return r.doPut(i, op)
	case opGet:
		r.noteRead()
		return r.checkGet(i, op.K, op)
	case opHas:
		r.noteRead()
		return r.checkHas(i, op.K, op)
	case opSize:
		r.noteRead()
		return r.checkSize(i, op.K, op)
	case opRemove:
		return r.doRemove(i, op)
	case opFlush:
		if err := r.s.Flush(); err != nil {
			return viol("flush-error|flush|"+errClass(err), i, "Flush: %v", err)
		}
		r.stats.Flushes++
		r.flushedSinceRead = true
		for d := range r.model {
			r.everFlushed[d] = true
		}
		if r.o.AfterQuiet != nil {
			return r.o.AfterQuiet(r, i, "flush")
		}
		return nil
	case opIter:
		r.noteRead()
		return r.checkIter(i, op.K)
	case opCheckAll:
		r.noteRead()
		return r.checkAll(i, op.K)
	case opReopen:
		return r.doReopen(i, op)
	case opPGC:
		return r.doPrimaryGC(i, op)
	case opIGC:
		return r.doIndexGC(i, op)
	case opReBits:
		return r.doReBits(i, op)
	case opMismatch:
		return r.doMismatch(i, op)
	}
	panic(infraError{fmt.Errorf("unknown op kind %q", op.K)})
}

func (r *seqRunner) doPut(i int, op Op) *Violation {
	ks, key := r.key(op)
	d := string(ks.Digest)
	cur, present := r.model[d]
	var val []byte
	if op.K == opRePut && present {
		val = append([]byte{}, cur...)
	} else {
		val = valueFor(i, op.VLen, op.VNil)
	}
	if len(val) == 0 {
		r.stats.EmptyValues++
	}
	err := r.s.Put(key, val)
	if r.c.Cfg.Immutable && present {
		if !errors.Is(err, types.ErrKeyExists) {
			return viol("immutable-put|put|no-key-exists-error", i, "Put of existing key %x in immutable mode returned %v, want ErrKeyExists", ks.Digest, err)
		}
		r.stats.Rejected++
		return nil
	}
	if err != nil {
		return viol("put-error|put|"+errClass(err), i, "Put(%x, %s) returned error: %v", ks.Digest, shortBytes(val), err)
	}
	if present && !bytes.Equal(cur, val) {
		r.stats.Supersede++
		if r.everFlushed[d] {
			r.removedFlushed, r.stats.SupersededFlushed = true, true
		}
	}
	if !present || !bytes.Equal(cur, val) {
		delete(r.everFlushed, d)
	}
	r.model[d] = val
	r.workSinceOpen = true
	return nil
}

func (r *seqRunner) doRemove(i int, op Op) *Violation {
	ks, key := r.key(op)
	d := string(ks.Digest)
	_, present := r.model[d]
	removed, err := r.s.Remove(key)
	if err != nil {
		return viol("remove-error|rm|"+errClass(err), i, "Remove(%x) returned error: %v", ks.Digest, err)
	}
	if removed != present {
		return viol(fmt.Sprintf("remove-result|rm|got-%v-want-%v", removed, present), i, "Remove(%x) = %v, model says present=%v", ks.Digest, removed, present)
	}
	if present {
		r.stats.Supersede++
		if r.everFlushed[d] {
			r.removedFlushed, r.stats.SupersededFlushed = true, true
			r.dirtyForReopen = true
		}
		delete(r.model, d)
		delete(r.everFlushed, d)
		r.workSinceOpen = true
	}
	return nil
}

func (r *seqRunner) checkGet(i int, kind string, op Op) *Violation {
	ks, key := r.key(op)
	want, present := r.model[string(ks.Digest)]
	got, found, err := r.s.Get(key)
	if err != nil {
		return viol("get-error|"+kind+"|"+errClass(err), i, "Get(%x) returned error: %v", ks.Digest, err)
	}
	switch {
	case found && !present:
		return viol("get-mismatch|"+kind+"|found-but-absent", i, "Get(%x) found %s, model says absent", ks.Digest, shortBytes(got))
	case !found && present:
		return viol("get-mismatch|"+kind+"|absent-but-present", i, "Get(%x) not found, model has %s", ks.Digest, shortBytes(want))
	case found && !bytes.Equal(got, want):
		sym := "wrong-value"
		if r.isOtherKeysValue(ks, got) {
			sym = "other-keys-value"
		}
		return viol("get-mismatch|"+kind+"|"+sym, i, "Get(%x) = %s, model has %s", ks.Digest, shortBytes(got), shortBytes(want))
	}
	if v := r.checkHeld(i, kind); v != nil {
		return v
	}
	if found && len(got) > 0 {
		r.held = append(r.held, heldValue{digest: ks.Digest, got: got, want: append([]byte{}, got...), step: i})
		if len(r.held) > 8 {
			r.held = r.held[1:]
		}
	}
	return nil
}

func (r *seqRunner) isOtherKeysValue(ks KeySpec, got []byte) bool {
	if len(got) < 3 {
		return false
	}
	for d, v := range r.model {
		if d != string(ks.Digest) && bytes.Equal(v, got) {
			return true
		}
	}
	return false
}

func (r *seqRunner) checkHas(i int, kind string, op Op) *Violation {
	ks, key := r.key(op)
	_, present := r.model[string(ks.Digest)]
	has, err := r.s.Has(key)
	if err != nil {
		return viol("has-error|"+kind+"|"+errClass(err), i, "Has(%x) returned error: %v", ks.Digest, err)
	}
	if has != present {
		return viol(fmt.Sprintf("has-mismatch|%s|got-%v-want-%v", kind, has, present), i, "Has(%x) = %v, model says %v", ks.Digest, has, present)
	}
	return nil
}

func (r *seqRunner) checkSize(i int, kind string, op Op) *Violation {
	ks, key := r.key(op)
	want, present := r.model[string(ks.Digest)]
	size, found, err := r.s.GetSize(key)
	if err != nil {
		return viol("size-error|"+kind+"|"+errClass(err), i, "GetSize(%x) returned error: %v", ks.Digest, err)
	}
	if found != present {
		return viol(fmt.Sprintf("size-mismatch|%s|found-%v-want-%v", kind, found, present), i, "GetSize(%x) found=%v, model says %v", ks.Digest, found, present)
	}
	if found && int(size) != len(want) {
		return viol("size-mismatch|"+kind+"|wrong-size", i, "GetSize(%x) = %d, model value has %d bytes", ks.Digest, size, len(want))
	}
	return nil
}

func (r *seqRunner) checkAll(i int, kind string) *Violation {
	for k := range r.c.Keys {
		op := Op{Key: k}
		if v := r.checkGet(i, kind, op); v != nil {
			return v
		}
		if v := r.checkHas(i, kind, op); v != nil {
			return v
		}
		if v := r.checkSize(i, kind, op); v != nil {
			return v
		}
	}
	return nil
}

func (r *seqRunner) checkIter(i int, kind string) *Violation {
	got, dups, err := iterateStore(r.s, r.c.Cfg.Primary)
	// NewIterator flushes.
	r.flushedSinceRead = true
	for d := range r.model {
		r.everFlushed[d] = true
	}
	if err != nil {
		return viol("iter-error|"+kind+"|"+errClass(err), i, "iteration returned error: %v", err)
	}
	if len(dups) != 0 {
		return viol("iter-mismatch|"+kind+"|duplicate", i, "iteration returned key(s) twice: %v", dups)
	}
	for d, want := range r.model {
		g, ok := got[d]
		if !ok {
			return viol("iter-mismatch|"+kind+"|missing", i, "iteration misses key %x", d)
		}
		if !bytes.Equal(g, want) {
			return viol("iter-mismatch|"+kind+"|wrong-value", i, "iteration has %x = %s, model has %s", d, shortBytes(g), shortBytes(want))
		}
	}
	for d := range got {
		if _, ok := r.model[d]; !ok {
			return viol("iter-mismatch|"+kind+"|extra", i, "iteration returned key %x which the model does not hold", d)
		}
	}
	return nil
}

func (r *seqRunner) countFiles() {
	ents, _ := os.ReadDir(r.dir)
	var ni, np int
	for _, e := range ents {
		n := e.Name()
		if strings.HasPrefix(n, idxBase+".") && isNumeric(n[len(idxBase)+1:]) {
			ni++
		}
		if strings.HasPrefix(n, dataBase+".") && isNumeric(n[len(dataBase)+1:]) {
			np++
		}
	}
	if ni > r.stats.IndexFiles {
		r.stats.IndexFiles = ni
	}
	if np > r.stats.PrimaryFiles {
		r.stats.PrimaryFiles = np
	}
}

func isNumeric(s string) bool {
	if s == "" {
		return false
	}
	for _, c := range s {
		if c < '0' || c > '9' {
			return false
		}
	}
	return true
}

// closeStore closes the store twice; both calls must succeed.
func (r *seqRunner) closeStore(i int, kind string) *Violation {
	r.countFiles()
	s := r.s
	r.s = nil
	if err := s.Close(); err != nil {
		return viol("close-error|"+kind+"|"+errClass(err), i, "Close: %v", err)
	}
	if err := s.Close(); err != nil {
		return viol("close-error|"+kind+"|second-close", i, "second Close: %v", err)
	}
	return nil
}

func prepareReopenMode(dir string, cfg Config, mode int) {
	snap := filepath.Join(dir, idxBase+".buckets")
	switch mode {
	case 1:
		os.Remove(snap)
	case 2:
		// A snapshot of the wrong size is documented as unusable.
		fi, err := os.Stat(snap)
		if err == nil && fi.Size() >= 8 {
			os.Truncate(snap, fi.Size()-8)
		} else {
			os.WriteFile(snap, []byte{1, 2, 3}, 0o644)
		}
	}
}

func (r *seqRunner) doReopen(i int, op Op) *Violation {
	mode := op.A % 3
	if r.stats.IndexFiles > 1 || r.removedFlushed || r.dirtyForReopen {
		r.stats.ReopenAfterWork = true
	}
	if v := r.closeStore(i, opReopen); v != nil {
		return v
	}
	if r.o.AfterClose != nil {
		if v := r.o.AfterClose(r, i); v != nil {
			return v
		}
	}
	if r.stats.IndexFiles > 1 {
		r.stats.ReopenAfterWork = true
	}
	if r.o.FullReopen {
		if v := r.compareRecoveryPaths(i); v != nil {
			return v
		}
		r.stats.Reopens[0]++
		r.stats.Reopens[1]++
		r.stats.Reopens[2]++
	} else {
		r.stats.Reopens[mode]++
	}
	prepareReopenMode(r.dir, r.c.Cfg, mode)
	s, err := openStore(r.dir, r.c.Cfg)
	if err != nil {
		return viol(fmt.Sprintf("reopen-error|reopen%d|%s", mode, errClass(err)), i, "reopen (mode %d) failed: %v", mode, err)
	}
	r.s = s
	r.flushedSinceRead = true
	for d := range r.model {
		r.everFlushed[d] = true
	}
	if v := r.checkAll(i, fmt.Sprintf("reopen%d", mode)); v != nil {
		return v
	}
	if r.o.AfterQuiet != nil {
		return r.o.AfterQuiet(r, i, "reopen")
	}
	return nil
}

// compareRecoveryPaths opens copies of the closed directory through the
// snapshot path, the rescan path and the unusable-snapshot path and requires
// each to show exactly the model, and the decoded bucket contents to agree.
func (r *seqRunner) compareRecoveryPaths(i int) *Violation {
	type opened struct {
		dir  string
		s    *store.Store
		recs map[uint32][]byte
	}
	var all []*opened
	defer func() {
		for _, o := range all {
			if o.s != nil {
				o.s.Close()
			}
			os.RemoveAll(o.dir)
		}
	}()
	for mode := 0; mode < 3; mode++ {
		d := newScratch("rp")
		o := &opened{dir: d}
		all = append(all, o)
		copyDir(r.dir, d)
		prepareReopenMode(d, r.c.Cfg, mode)
		s, err := openStore(d, r.c.Cfg)
		if err != nil {
			return viol(fmt.Sprintf("reopen-error|reopen%d|%s", mode, errClass(err)), i, "reopen of copy (mode %d) failed: %v", mode, err)
		}
		o.s = s
		// Bucket contents first: reads may repair the index as a side effect.
		recs, err := decodedBuckets(s.Index())
		if err != nil {
			return viol(fmt.Sprintf("reopen-buckets|reopen%d|%s", mode, errClass(err)), i, "cannot read bucket contents after reopen (mode %d): %v", mode, err)
		}
		o.recs = recs
		sub := &seqRunner{c: r.c, o: r.o, dir: d, s: s, model: r.model, everFlushed: map[string]bool{}}
		kind := fmt.Sprintf("reopen%d", mode)
		if v := sub.checkAll(i, kind); v != nil {
			return v
		}
		if v := sub.checkIter(i, kind); v != nil {
			return v
		}
	}
	for mode := 1; mode < 3; mode++ {
		if diff := diffBuckets(all[0].recs, all[mode].recs); diff != "" {
			return viol(fmt.Sprintf("recovery-paths-differ|reopen%d|bucket-contents", mode), i, "snapshot and mode-%d recovery reconstruct different bucket contents: %s", mode, diff)
		}
	}
	return nil
}

// decodedBuckets returns, for every non-empty bucket, the record list data
// it resolves to.
func decodedBuckets(idx *index.Index) (map[uint32][]byte, error) {
	out := map[uint32][]byte{}
	for b, pos := range idx.VerifBuckets() {
		if pos == 0 {
			continue
		}
		data, err := idx.VerifRecordList(index.BucketIndex(b))
		if err != nil {
			return nil, fmt.Errorf("bucket %d: %w", b, err)
		}
		if len(data) != 0 {
			out[uint32(b)] = data
		}
	}
	return out, nil
}

func diffBuckets(a, b map[uint32][]byte) string {
	for k, va := range a {
		vb, ok := b[k]
		if !ok {
			return fmt.Sprintf("bucket %d has %d bytes of records in one and none in the other", k, len(va))
		}
		if !bytes.Equal(va, vb) {
			return fmt.Sprintf("bucket %d: %x vs %x", k, va, vb)
		}
	}
	for k, vb := range b {
		if _, ok := a[k]; !ok {
			return fmt.Sprintf("bucket %d has none in one and %d bytes of records in the other", k, len(vb))
		}
	}
	return ""
}

func (r *seqRunner) gcPrologue() (before string, unflushed bool) {
	unflushed = r.s.Index().OutstandingWork()+r.s.Primary().OutstandingWork() > 0
	if r.o.TrackGC {
		before = readDirImage(r.dir).hash()
	}
	return
}

func (r *seqRunner) gcEpilogue(kind, before string, unflushed bool, err error) {
	if r.o.TrackGC {
		if readDirImage(r.dir).hash() != before {
			r.stats.GCChanged++
			r.stats.GCKinds[kind] = true
			r.gcSinceRead = true
			r.dirtyForReopen = true
			if unflushed {
				r.stats.GCWithUnflushed++
			}
		}
	}
	if err != nil {
		r.stats.GCInterrupted++
	}
}

func (r *seqRunner) doPrimaryGC(i int, op Op) *Violation {
	mp := mhPrimaryOf(r.s)
	if mp == nil {
		return nil
	}
	if r.o.FlushBeforeGC {
		if err := r.s.Flush(); err != nil {
			return viol("flush-error|flush|"+errClass(err), i, "Flush: %v", err)
		}
	}
	if r.o.FixedLowUse > 0 {
		op.A = r.o.FixedLowUse
	}
	before, unflushed := r.gcPrologue()
	_, err := mp.GC(gcCtx(op.B), int64(op.A))
	r.gcEpilogue(opPGC, before, unflushed, err)
	if err != nil && !(op.B > 0 && errors.Is(err, context.DeadlineExceeded)) {
		// An error return of a cycle is not a violation of any listed
		// statement by itself (the next cycle starts over); what matters is
		// that contents stay intact, which the run keeps checking.
		r.stats.GCErrors = append(r.stats.GCErrors, "pgc: "+errClass(err))
	}
	if r.o.AfterQuiet != nil && err == nil {
		return r.o.AfterQuiet(r, i, "pgc")
	}
	return nil
}

func (r *seqRunner) doIndexGC(i int, op Op) *Violation {
	if r.o.FlushBeforeGC {
		if err := r.s.Flush(); err != nil {
			return viol("flush-error|flush|"+errClass(err), i, "Flush: %v", err)
		}
	}
	before, unflushed := r.gcPrologue()
	_, _, err := r.s.Index().VerifGC(gcCtx(op.B), op.A%2 == 1)
	r.gcEpilogue(opIGC, before, unflushed, err)
	if err != nil && !(op.B > 0 && errors.Is(err, context.DeadlineExceeded)) {
		r.stats.GCErrors = append(r.stats.GCErrors, "igc: "+errClass(err))
	}
	if r.o.AfterQuiet != nil && err == nil {
		return r.o.AfterQuiet(r, i, "igc")
	}
	return nil
}

func (r *seqRunner) doReBits(i int, op Op) *Violation {
	newBits := uint8(op.A)
	if newBits < 8 || newBits > 24 {
		newBits = 8 + uint8(op.A%17)
	}
	oldBits := r.c.Cfg.Bits
	if v := r.closeStore(i, opReBits); v != nil {
		return v
	}
	nIdx := len(numberedFiles(r.dir, idxBase))
	r.c.Cfg.Bits = newBits
	if op.B == 1 && newBits != oldBits && r.c.Cfg.Primary == store.MultihashPrimary {
		// A read fault during the re-bucketing: the oldest primary file is
		// replaced by a directory of its name for one attempt (opening works,
		// reading fails). The attempt may be refused; if it is accepted, or
		// after the file is back, the contents must be complete.
		if prim := numberedFiles(r.dir, dataBase); len(prim) >= 2 {
			name := filepath.Join(r.dir, fmt.Sprintf("%s.%d", dataBase, prim[0]))
			if os.Rename(name, name+".away") == nil && os.Mkdir(name, 0o755) == nil {
				s, err := openStore(r.dir, r.c.Cfg)
				if err == nil {
					r.stats.FaultyRebitsAccepted++
					s.Close()
				} else {
					r.stats.FaultyRebitsRefused++
				}
				os.Remove(name)
				os.Rename(name+".away", name)
			}
		}
	}
	s, err := openStore(r.dir, r.c.Cfg)
	if err != nil {
		return viol("rebits-open-error|rebits|"+errClass(err), i, "reopen with %d instead of %d index bits failed: %v", newBits, oldBits, err)
	}
	r.s = s
	if newBits != oldBits {
		r.stats.Translations++
		r.stats.BitPairs = append(r.stats.BitPairs, fmt.Sprintf("%d->%d", oldBits, newBits))
		buckets := map[uint32]int{}
		shared := false
		for d := range r.model {
			b := bucketOf([]byte(d), newBits)
			buckets[b]++
			if buckets[b] >= 2 {
				shared = true
			}
		}
		if len(r.model) >= 6 && shared && nIdx >= 2 {
			r.stats.TranslatedNT = true
		}
	}
	r.flushedSinceRead = true
	for d := range r.model {
		r.everFlushed[d] = true
	}
	if v := r.checkAll(i, opReBits); v != nil {
		return v
	}
	if v := r.checkIter(i, opReBits); v != nil {
		return v
	}
	if r.o.AfterQuiet != nil {
		return r.o.AfterQuiet(r, i, "rebits")
	}
	return nil
}

func (r *seqRunner) doMismatch(i int, op Op) *Violation {
	which := op.A
	if which == 2 && r.c.Cfg.Primary != store.MultihashPrimary {
		which = 1
	}
	if v := r.closeStore(i, opMismatch); v != nil {
		return v
	}
	wrong := r.c.Cfg
	size := uint32(op.B)
	if which == 1 {
		// An index file size of 0 means "whatever the existing index uses"
		// and is not a mismatch.
		if size == 0 || effectiveSize(size) == effectiveSize(wrong.IdxSize) {
			size = uint32(effectiveSize(wrong.IdxSize)/2 + 7)
		}
		wrong.IdxSize = size
	} else {
		if effectiveSize(size) == effectiveSize(wrong.PrimSize) {
			size = uint32(effectiveSize(wrong.PrimSize)/2 + 7)
		}
		wrong.PrimSize = size
	}
	alsoBits := ""
	if op.Key >= 8 && op.Key <= 24 && uint8(op.Key) != wrong.Bits {
		// The bit size differs as well.
		wrong.Bits = uint8(op.Key)
		alsoBits = fmt.Sprintf(" and %d instead of %d index bits", wrong.Bits, r.c.Cfg.Bits)
		r.stats.MismatchesWithBits++
	}
	// The same wrong open one to three times in a row (a refused open may
	// not change what the next one decides: the first one drops the saved
	// bucket table, so the following ones take the scan path).
	attempts := 1 + (op.B+op.Key+i)%3
	for a := 1; a <= attempts; a++ {
		s, err := openStore(r.dir, wrong)
		if err == nil {
			s.Close()
			return viol("mismatch-accepted|mismatch|", i, "open with a different %s file size (%d)%s succeeded (attempt %d of the same open)", map[int]string{1: "index", 2: "primary"}[which], size, alsoBits, a)
		}
		var ie types.ErrIndexWrongFileSize
		var pe types.ErrPrimaryWrongFileSize
		if which == 1 && !errors.As(err, &ie) {
			return viol("mismatch-wrong-error|mismatch|index", i, "open with index file size %d returned %v, want ErrIndexWrongFileSize (attempt %d)", size, err, a)
		}
		if which == 2 && !errors.As(err, &pe) {
			return viol("mismatch-wrong-error|mismatch|primary", i, "open with primary file size %d returned %v, want ErrPrimaryWrongFileSize (attempt %d)", size, err, a)
		}
	}
	r.stats.Mismatches++
	s, err := openStore(r.dir, r.c.Cfg)
	if err != nil {
		return viol("mismatch-reopen-error|mismatch|"+errClass(err), i, "open with the original settings after a refused open failed: %v", err)
	}
	r.s = s
	r.flushedSinceRead = true
	for d := range r.model {
		r.everFlushed[d] = true
	}
	if v := r.checkAll(i, opMismatch); v != nil {
		return v
	}
	return r.checkIter(i, opMismatch)
}

func (st SeqStats) removedFlushedSeen() bool { return st.SupersededFlushed }

// currentSeqCase is the sequential case being evaluated (for the hang watchdog).
var currentSeqCase atomic.Pointer[SeqCase]
