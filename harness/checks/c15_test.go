package checks

import (
	"bytes"
	"context"
	"errors"
	"fmt"
	"os"
	"path/filepath"
	"testing"
	"time"

	blocks "github.com/ipfs/go-block-format"
	"github.com/ipfs/go-cid"
	ipld "github.com/ipfs/go-ipld-format"
	storethehash "github.com/ipld/go-storethehash"
	"github.com/ipld/go-storethehash/store"
	mh "github.com/multiformats/go-multihash"
	"pgregory.net/rapid"
)

// BSBlock is one block of a blockstore case.
type BSBlock struct {
	Data    HexBytes `json:"data"`
	Hash    uint64   `json:"hash"`    // multihash function used to address the block
	Wrong   bool     `json:"wrong"`   // the CID is computed from other bytes (mismatching pair)
	Version int      `json:"version"` // default CID variant
	Codec   uint64   `json:"codec"`
	MhLen   int      `json:"mh_len,omitempty"` // truncated digest length, 0 = the function's full length
}

// BSOp is one blockstore call.
type BSOp struct {
	K         string `json:"k"` // put, putmany, get, has, size, del, hor
	Blk       int    `json:"blk,omitempty"`
	Blks      []int  `json:"blks,omitempty"` // putmany
	Variant   int    `json:"variant,omitempty"`
	Cancelled bool   `json:"cancelled,omitempty"`
	On        bool   `json:"on,omitempty"` // hor
}

// BSCase is a sequence of blockstore calls.
type BSCase struct {
	Bits     uint8     `json:"bits"`
	PrimSize uint32    `json:"prim_size"`
	IdxSize  uint32    `json:"idx_size"`
	Started  bool      `json:"started"`        // run the periodic flusher (2 ms)
	High     bool      `json:"high,omitempty"` // file numbers so high that positions exceed 32 bits (Config.StartPrim)
	Blocks   []BSBlock `json:"blocks"`
	Ops      []BSOp    `json:"ops"`
	// Twins: the last block is addressed by an identity multihash whose
	// digest bytes equal the sha2-256 digest of block 0 (two different
	// multihashes with the same digest).
	Twins bool `json:"twins,omitempty"`
}

const c15Rule = "rapid-generated sequences of blockstore calls (Put, PutMany, Get, Has, GetSize, DeleteBlock, HashOnRead on/off), each with a live or an already cancelled context, over blocks of 0..200 bytes (+70 KiB) addressed by CIDv0/v1 x raw/dag-pb/dag-cbor x sha2-256/sha2-512/sha3-512/blake2b-256/blake2b-512/identity up to 300 bytes (multihashes of more than 64 bytes included; in a third of the cases the identity-addressed blocks share a common beginning, so that they meet in one bucket with shared stored prefixes and a delete of an unknown CID lands on a stored block's entry; sha2 digests also truncated, one length per function and case) built with Prefix.Sum, CID variants of one multihash used interchangeably, deliberately mismatching (data, CID) pairs, 8..12 index bits so blocks share buckets, optionally with the periodic flusher running, and close/reopen of the blockstore between calls; " +
	"oracle = map keyed by multihash (first Put wins, duplicates silent) + contract clauses: same CID and bytes back (and the last 8 returned blocks keep their bytes through all later calls), Has/GetSize agree with Get, delete => ipld.IsNotFound, unknown => IsNotFound, cancelled context => error and no effect (verified by later reads), hash-on-read enabled => ErrWrongHash exactly for stored bytes that do not hash to the requested CID, disabled => bytes returned; " +
	"non-trivial = >=2 CID variants of one multihash used, a delete of a present block, HashOnRead toggled in both directions; distinct = distinct canonical JSON of the case"

var bsCodecs = []uint64{cid.Raw, cid.DagProtobuf, cid.DagCBOR}

func genBS(t *rapid.T) BSCase {
	var c BSCase
	c.Bits = []uint8{8, 9, 12}[weighted(t, "bits", []int{6, 2, 1})]
	c.PrimSize = []uint32{64, 256, 1024, 0}[weighted(t, "prim", []int{2, 2, 2, 2})]
	c.IdxSize = []uint32{64, 256, 1024, 0}[weighted(t, "idx", []int{2, 2, 2, 2})]
	c.Started = weighted(t, "started", []int{2, 1}) == 1
	c.High = weighted(t, "high", []int{6, 1}) == 1
	// Few blocks most of the time, so that calls meet on the same block.
	nbHi := []int{5, 12, 24}[weighted(t, "nblocksClass", []int{3, 2, 1})]
	nb := rapid.IntRange(2, nbHi).Draw(t, "nblocks")
	// Identity-addressed blocks share one length (prefix-free digests); long
	// ones make multihashes of more than 64 bytes.
	idLen := rapid.IntRange(4, 12).Draw(t, "idlen")
	if weighted(t, "longid", []int{4, 1}) == 1 {
		idLen = []int{40, 65, 100, 300}[rapid.IntRange(0, 3).Draw(t, "idlenlong")]
	}
	idStem := weighted(t, "idstem", []int{2, 1}) == 1
	trunc := map[uint64]int{}
	if weighted(t, "truncated", []int{3, 1}) == 1 {
		trunc[mh.SHA2_256] = []int{20, 16, 28}[rapid.IntRange(0, 2).Draw(t, "mhlen256")]
	}
	if weighted(t, "truncated512", []int{3, 1}) == 1 {
		trunc[mh.SHA2_512] = []int{20, 32, 48}[rapid.IntRange(0, 2).Draw(t, "mhlen512")]
	}
	for i := 0; i < nb; i++ {
		var b BSBlock
		b.Hash = []uint64{mh.SHA2_256, mh.SHA2_512, mh.BLAKE2B_MIN + 31, mh.IDENTITY, mh.BLAKE2B_MAX, mh.SHA3_512}[weighted(t, "hash", []int{6, 2, 1, 2, 1, 1})]
		if idStem && weighted(t, "idmore", []int{1, 1}) == 1 {
			b.Hash = mh.IDENTITY
		}
		n := []int{0, 1, 3, 10, 50, 200, 70000}[weighted(t, "len", []int{3, 2, 3, 5, 4, 2, 0})]
		if weighted(t, "huge", []int{60, 1}) == 1 {
			n = 70000
		}
		if b.Hash == mh.IDENTITY {
			n = idLen
		}
		b.Data = make([]byte, n)
		for j := range b.Data {
			b.Data[j] = byte(i*31 + j*7 + 1)
		}
		if n >= 2 {
			b.Data[0], b.Data[1] = byte(i), byte(i>>8)
		}
		if b.Hash == mh.IDENTITY && idStem && n >= 4 {
			// Identity-addressed blocks with a common beginning (inlined blocks
			// with the same header): same bucket, shared stored prefixes; the
			// block number sits at the end.
			for j := range b.Data {
				b.Data[j] = byte(0x40 + j%7)
			}
			b.Data[n-1], b.Data[n-2] = byte(i), byte(i>>8)^0x5a
			if n > 200 {
				// Stored prefixes of 256 bytes or more are the subject of the
				// known finding KF-C08: keep the shared part below that.
				b.Data[200], b.Data[201] = byte(i), byte(i>>8)^0x5a
			}
		}
		b.Wrong = b.Hash != mh.IDENTITY && weighted(t, "wrong", []int{5, 1}) == 1
		// A multihash may carry a truncated digest (Prefix.MhLength). All blocks
		// of one function share the length: the index key is the digest, and a
		// full digest next to its own truncation would break the prefix-free
		// precondition of the index.
		b.MhLen = trunc[b.Hash]
		b.Codec = bsCodecs[weighted(t, "codec", []int{3, 2, 1})]
		b.Version = 1
		if b.Hash == mh.SHA2_256 && b.MhLen == 0 && weighted(t, "v0", []int{3, 1}) == 1 {
			b.Version, b.Codec = 0, cid.DagProtobuf
		}
		c.Blocks = append(c.Blocks, b)
	}
	kinds := []string{"put", "putmany", "get", "has", "size", "del", "hor", "reopen"}
	w := make([]int, len(kinds))
	for i, mx := range []int{8, 2, 6, 2, 2, 3, 2, 1} {
		w[i] = rapid.IntRange(0, mx).Draw(t, "w_"+kinds[i])
	}
	if w[0] == 0 {
		w[0] = 2
	}
	// Deletes and hash-on-read toggles are what the suite never calls: keep
	// them present in most cases.
	if weighted(t, "allkinds", []int{1, 3}) == 1 {
		for i := range w {
			if w[i] == 0 {
				w[i] = 1
			}
		}
	}
	horPrev := false
	c.Ops = rapid.SliceOfN(rapid.Custom(func(t *rapid.T) BSOp {
		op := BSOp{K: kinds[weighted(t, "kind", w)]}
		op.Cancelled = weighted(t, "cancelled", []int{8, 1}) == 1
		switch op.K {
		case "putmany":
			op.Blks = rapid.SliceOfN(rapid.IntRange(0, nb-1), 0, 5).Draw(t, "blks")
		case "reopen":
			horPrev = false
		case "hor":
			// Mostly a real toggle (the previous setting is tracked while the
			// list is generated).
			op.On = horPrev
			if weighted(t, "toggle", []int{1, 3}) == 1 {
				op.On = !horPrev
			}
			horPrev = op.On
		default:
			op.Blk = rapid.IntRange(0, nb-1).Draw(t, "blk")
			op.Variant = rapid.IntRange(0, 3).Draw(t, "variant")
		}
		return op
	}), 4, 60).Draw(t, "ops")
	return c
}

// cidFor returns the CID addressing a block: variant 0 is the block's own
// CID, other variants change version / codec but keep the multihash.
func cidFor(b BSBlock, idx, variant int) cid.Cid {
	src := []byte(b.Data)
	if b.Wrong {
		src = append([]byte("other bytes "), byte(idx), byte(idx>>8))
	}
	mhLen := -1
	if b.MhLen > 0 {
		mhLen = b.MhLen
	}
	h, err := mh.Sum(src, b.Hash, mhLen)
	if err != nil {
		panic(infraError{fmt.Errorf("mh.Sum(%x): %w", b.Hash, err)})
	}
	version, codec := b.Version, b.Codec
	if b.MhLen > 0 && version == 0 {
		version, codec = 1, cid.DagProtobuf // CIDv0 is full-length sha2-256 only
	}
	switch variant {
	case 1:
		codec = cid.Raw
		version = 1
	case 2:
		codec = cid.DagCBOR
		version = 1
	case 3:
		if b.Hash == mh.SHA2_256 && b.MhLen == 0 {
			version, codec = 0, cid.DagProtobuf
		} else {
			version, codec = 1, cid.DagProtobuf
		}
	}
	if version == 0 {
		return cid.NewCidV0(h)
	}
	return cid.NewCidV1(codec, h)
}

type bsStats struct {
	variants, del, horOn, horOff, cancelled, wrongRead, reopened bool
}

func runBS(c BSCase) (st bsStats, v *Violation) {
	dir := newScratch("bs")
	defer os.RemoveAll(dir)
	opts := []store.Option{store.IndexBitSize(c.Bits), store.IndexFileSize(c.IdxSize), store.PrimaryFileSize(c.PrimSize),
		store.GCInterval(0), store.BurstRate(1 << 40), store.SyncInterval(time.Hour)}
	if c.Started {
		opts[len(opts)-1] = store.SyncInterval(2 * time.Millisecond)
	}
	if c.High {
		forgeStartFiles(dir, Config{Primary: store.MultihashPrimary, Bits: c.Bits, IdxSize: c.IdxSize, PrimSize: c.PrimSize,
			StartPrim: startFileFor(c.PrimSize, 1), StartIdx: startFileFor(c.IdxSize, 1)})
	}
	bs, err := storethehash.OpenHashedBlockstore(context.Background(), filepath.Join(dir, idxBase), filepath.Join(dir, dataBase), opts...)
	if err != nil {
		return st, viol("open-error|open|"+errClass(err), -1, "OpenHashedBlockstore: %v", err)
	}
	if c.Started {
		bs.Start()
	}
	defer func() { bs.Close() }()
	cancelled, cancel := context.WithCancel(context.Background())
	cancel()
	model := map[string][]byte{}
	usedVariant := map[string]map[string]bool{}
	hor := false
	ctxOf := func(op BSOp) context.Context {
		if op.Cancelled {
			st.cancelled = true
			return cancelled
		}
		return context.Background()
	}
	noteVariant := func(c cid.Cid) {
		k := string(c.Hash())
		if usedVariant[k] == nil {
			usedVariant[k] = map[string]bool{}
		}
		usedVariant[k][c.KeyString()] = true
		if len(usedVariant[k]) >= 2 {
			st.variants = true
		}
	}
	type heldBlock struct {
		blk  blocks.Block
		want []byte
	}
	var heldBlocks []heldBlock
	checkRead := func(i int, kind string, id cid.Cid) *Violation {
		want, present := model[string(id.Hash())]
		blk, err := bs.Get(context.Background(), id)
		switch {
		case !present:
			if !ipld.IsNotFound(err) {
				return viol("get-absent|"+kind+"|"+errClass(err), i, "Get(%s) of an absent block returned (%v, %v), want the IPLD not-found error", id, blk, err)
			}
		default:
			okHash := true
			if hor {
				sum, serr := id.Prefix().Sum(want)
				okHash = serr == nil && sum.Equals(id)
			}
			if !okHash {
				st.wrongRead = true
				if !errors.Is(err, blocks.ErrWrongHash) {
					return viol("hash-on-read|"+kind+"|not-rejected", i, "hash-on-read is enabled and the stored bytes do not hash to %s, but Get returned (%v, %v)", id, blk, err)
				}
				break
			}
			if err != nil {
				sym := errClass(err)
				if errors.Is(err, blocks.ErrWrongHash) {
					sym = "wrong-hash-while-disabled-or-matching"
				}
				return viol("get-present|"+kind+"|"+sym, i, "Get(%s) returned error %v (hash-on-read=%v), model has %s", id, err, hor, shortBytes(want))
			}
			if !blk.Cid().Equals(id) {
				return viol("get-present|"+kind+"|other-cid", i, "Get(%s) returned a block with CID %s", id, blk.Cid())
			}
			if !bytes.Equal(blk.RawData(), want) {
				return viol("get-present|"+kind+"|wrong-bytes", i, "Get(%s) = %s, model has %s", id, shortBytes(blk.RawData()), shortBytes(want))
			}
			// A returned block belongs to the caller: keep the last few and
			// require that later calls do not change their bytes.
			for _, h := range heldBlocks {
				if !bytes.Equal(h.blk.RawData(), h.want) {
					return viol("returned-block-changed-later|"+kind+"|", i, "the block Get(%s) returned earlier had bytes %s; the same block reads %s now, after later calls", h.blk.Cid(), shortBytes(h.want), shortBytes(h.blk.RawData()))
				}
			}
			if len(want) > 0 {
				heldBlocks = append(heldBlocks, heldBlock{blk, append([]byte{}, want...)})
				if len(heldBlocks) > 8 {
					heldBlocks = heldBlocks[1:]
				}
			}
		}
		has, err := bs.Has(context.Background(), id)
		if err != nil || has != present {
			return viol("has|"+kind+"|"+errClass(err), i, "Has(%s) = (%v, %v), model says %v", id, has, err, present)
		}
		size, err := bs.GetSize(context.Background(), id)
		if present {
			if err != nil || size != len(want) {
				return viol("getsize|"+kind+"|"+errClass(err), i, "GetSize(%s) = (%d, %v), model value has %d bytes", id, size, err, len(want))
			}
		} else if !ipld.IsNotFound(err) {
			return viol("getsize|"+kind+"|absent-"+errClass(err), i, "GetSize(%s) of an absent block returned (%d, %v)", id, size, err)
		}
		return nil
	}
	step := func(i int, op BSOp) *Violation {
		ctx := ctxOf(op)
		mkBlock := func(bi int) (blocks.Block, cid.Cid) {
			b := c.Blocks[bi%len(c.Blocks)]
			id := cidFor(b, bi%len(c.Blocks), op.Variant)
			blk, err := blocks.NewBlockWithCid(b.Data, id)
			if err != nil {
				panic(infraError{err})
			}
			return blk, id
		}
		switch op.K {
		case "put":
			blk, id := mkBlock(op.Blk)
			err := bs.Put(ctx, blk)
			if op.Cancelled {
				if err == nil {
					return viol("cancelled|put|no-error", i, "Put with a cancelled context returned nil")
				}
				return checkRead(i, "put-cancelled", id)
			}
			if err != nil {
				return viol("put-error|put|"+errClass(err), i, "Put(%s) returned %v", id, err)
			}
			noteVariant(id)
			if _, ok := model[string(id.Hash())]; !ok {
				model[string(id.Hash())] = c.Blocks[op.Blk%len(c.Blocks)].Data
			}
			return nil
		case "putmany":
			var bl []blocks.Block
			var ids []cid.Cid
			for _, bi := range op.Blks {
				b, id := mkBlock(bi)
				bl = append(bl, b)
				ids = append(ids, id)
			}
			err := bs.PutMany(ctx, bl)
			if op.Cancelled {
				if err == nil {
					return viol("cancelled|putmany|no-error", i, "PutMany with a cancelled context returned nil")
				}
				for _, id := range ids {
					if v := checkRead(i, "putmany-cancelled", id); v != nil {
						return v
					}
				}
				return nil
			}
			if err != nil {
				return viol("put-error|putmany|"+errClass(err), i, "PutMany returned %v", err)
			}
			for j, id := range ids {
				noteVariant(id)
				if _, ok := model[string(id.Hash())]; !ok {
					model[string(id.Hash())] = c.Blocks[op.Blks[j]%len(c.Blocks)].Data
				}
			}
			return nil
		case "get", "has", "size":
			_, id := mkBlock(op.Blk)
			if op.Cancelled {
				var err error
				switch op.K {
				case "get":
					_, err = bs.Get(ctx, id)
				case "has":
					_, err = bs.Has(ctx, id)
				default:
					_, err = bs.GetSize(ctx, id)
				}
				if err == nil {
					return viol("cancelled|"+op.K+"|no-error", i, "%s with a cancelled context returned no error", op.K)
				}
				return nil
			}
			noteVariant(id)
			return checkRead(i, op.K, id)
		case "del":
			_, id := mkBlock(op.Blk)
			err := bs.DeleteBlock(ctx, id)
			if op.Cancelled {
				if err == nil {
					return viol("cancelled|del|no-error", i, "DeleteBlock with a cancelled context returned nil")
				}
				return checkRead(i, "del-cancelled", id)
			}
			if err != nil {
				return viol("delete-error|del|"+errClass(err), i, "DeleteBlock(%s) returned %v", id, err)
			}
			if _, ok := model[string(id.Hash())]; ok {
				st.del = true
			}
			delete(model, string(id.Hash()))
			return checkRead(i, "del", id)
		case "reopen":
			// Close and open again: blocks are now read from the files, and
			// hash-on-read is back at its default (off).
			bs.Close()
			nbs, err := storethehash.OpenHashedBlockstore(context.Background(), filepath.Join(dir, idxBase), filepath.Join(dir, dataBase), opts...)
			if err != nil {
				return viol("open-error|reopen|"+errClass(err), i, "OpenHashedBlockstore on the closed blockstore's files: %v", err)
			}
			bs = nbs
			if c.Started {
				bs.Start()
			}
			hor = false
			st.reopened = true
			return nil
		case "hor":
			bs.HashOnRead(op.On)
			hor = op.On
			if op.On {
				st.horOn = true
			} else if st.horOn {
				st.horOff = true
			}
			return nil
		}
		panic(infraError{fmt.Errorf("unknown blockstore op %q", op.K)})
	}
	for i, op := range c.Ops {
		i, op := i, op
		if v := guard(i, op.K, func() *Violation { return step(i, op) }); v != nil {
			return st, v
		}
	}
	n := len(c.Ops)
	return st, guard(n, "final", func() *Violation {
		for bi := range c.Blocks {
			for variant := 0; variant < 4; variant += 3 {
				id := cidFor(c.Blocks[bi], bi, variant)
				if v := checkRead(n, "final", id); v != nil {
					return v
				}
			}
		}
		return nil
	})
}

func TestC15(t *testing.T) {
	ev := newEvidence("C15", "exploration", c15Rule)
	defer ev.Write()
	if envReplay != "" {
		var c BSCase
		readReplay(envReplay, &c)
		for i := 0; i < 20; i++ {
			_, v := runBS(c)
			ev.Record(c, true)
			if v != nil {
				ev.Report(v, c)
				t.Fatalf("replay: %v", v)
			}
		}
		return
	}
	for _, f := range regressFiles("C15") {
		var c BSCase
		readReplay(f, &c)
		_, v := runBS(c)
		ev.Record(c, true, "regression-case")
		if v != nil && ev.Report(v, c) {
			t.Fatalf("regression case %s: %v", f, v)
		}
	}
	setRapidChecks(budget(40000, 60000))
	rapid.Check(t, func(rt *rapid.T) {
		if pastDeadline() {
			ev.Skip()
			return
		}
		c := genBS(rt)
		st, v := runBS(c)
		var cl []string
		for name, on := range map[string]bool{"cid-variants": st.variants, "delete-present": st.del, "hor-on": st.horOn, "hor-off-after-on": st.horOff, "reopened": st.reopened,
			"cancelled-context": st.cancelled, "mismatching-pair-read-with-hor": st.wrongRead, "flusher-running": c.Started} {
			if on {
				cl = append(cl, name)
			}
		}
		ev.Record(c, st.variants && st.del && st.horOn && st.horOff, cl...)
		if v != nil && ev.Report(v, c) {
			rt.Fatalf("%v", v)
		}
	})
	if t.Failed() {
		return
	}
	// Digest twins: two different multihashes (sha2-256 and identity) whose
	// digest bytes are equal. The store keys by digest only (KF-C15): a few
	// cases confirm the finding, all others run without the twin.
	twinCases := 0
	setRapidChecks(budget(200, 600))
	rapid.Check(t, func(rt *rapid.T) {
		if pastDeadline() {
			ev.Skip()
			return
		}
		c := genBS(rt)
		c.Blocks[0].Hash, c.Blocks[0].MhLen, c.Blocks[0].Wrong = mh.SHA2_256, 0, false
		for i := range c.Blocks {
			if c.Blocks[i].Hash == mh.SHA2_256 {
				c.Blocks[i].MhLen = 0
			}
			if c.Blocks[i].Hash == mh.IDENTITY {
				// keep identity digests prefix-free next to the 32-byte twin
				d := make([]byte, 32)
				copy(d, c.Blocks[i].Data)
				d[31] = byte(i + 1)
				d[30] = 0xee
				c.Blocks[i].Data = d
			}
		}
		cl := []string{"digest-twins"}
		twinCases++
		if twinCases <= 6 {
			h, err := mh.Sum(c.Blocks[0].Data, mh.SHA2_256, -1)
			if err != nil {
				panic(infraError{err})
			}
			dec, err := mh.Decode(h)
			if err != nil {
				panic(infraError{err})
			}
			twin := len(c.Blocks)
			c.Blocks = append(c.Blocks, BSBlock{Data: append(HexBytes{}, dec.Digest...), Hash: mh.IDENTITY, Version: 1, Codec: cid.Raw})
			c.Twins = true
			// Both are stored and read back.
			c.Ops = append([]BSOp{{K: "put", Blk: 0}, {K: "put", Blk: twin}, {K: "get", Blk: twin}, {K: "get", Blk: 0}}, c.Ops...)
			cl = append(cl, "digest-twins:sha2-256-and-identity-with-equal-digest-bytes")
		} else {
			cl = append(cl, "digest-twins:twin-left-out(known finding excluded by construction)")
		}
		_, v := runBS(c)
		ev.Record(c, c.Twins, cl...)
		if v != nil && c.Twins {
			v.Signature += "|digest-twins-across-hash-functions"
		}
		if v != nil && ev.Report(v, c) {
			rt.Fatalf("%v", v)
		}
	})
	ev.finish(t)
}
