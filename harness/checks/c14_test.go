package checks

import (
	"errors"
	"fmt"
	"os"
	"path/filepath"
	"runtime"
	"strings"
	"sync"
	"sync/atomic"
	"testing"

	"github.com/ipld/go-storethehash/store/filecache"
	"pgregory.net/rapid"
)

// FCOp is one file-cache call.
type FCOp struct {
	K string `json:"k"` // open, close, remove, clear, resize
	A int    `json:"a,omitempty"`
}

// FCCase is a sequence of file-cache calls.
type FCCase struct {
	Cap   int    `json:"cap"`
	Names int    `json:"names"`
	Ops   []FCOp `json:"ops"`
	// Callback installs an eviction callback (SetOnEvicted) that only counts.
	Callback bool `json:"callback,omitempty"`
}

const c14Rule = "operations Open(name), Close(i-th lent handle), Remove(name), Clear, SetCacheSize(n) on filecache.FileCache with initial capacity 0..3, over file names of which two are not in their cleaned spelling (doubled separator, ./ component); every Open is closed exactly once by the generator (the documented contract). " +
	"Exhaustive part: every sequence over 2 names, capacities/resizes 0..2 up to depth 5 (quick) / 6 (thorough); random part: rapid sequences up to 60 calls over 3 names and capacities 0..3; concurrent part: goroutines opening/using/closing handles while another removes, clears and resizes; many-holders part: short random sequences with one burst of 200..520 simultaneous holders of one name (counts around 256 and 512) followed by a removal, clear, resize or eviction; random and concurrent parts with and without an eviction callback (SetOnEvicted) installed. " +
	"oracle after EVERY call: every lent handle still answers Stat (not closed); Close of a lent handle returns nil; open descriptors on the test files (/proc/self/fd) <= capacity + distinct lent handles; at the end, after releasing everything and Clear, no descriptor remains. " +
	"non-trivial = an eviction/removal/clear/resize while >=1 handle is lent, after which the same name is opened again; distinct = distinct call sequence"

type fcEnv struct {
	dir   string
	names []string
}

func newFCEnv() *fcEnv {
	e := &fcEnv{dir: newScratch("fc")}
	for _, n := range []string{"a", "b", "c"} {
		p := filepath.Join(e.dir, n)
		if err := os.WriteFile(p, []byte(n), 0o644); err != nil {
			panic(infraError{err})
		}
		// The cache is handed whatever spelling its user builds (the store
		// appends ".N" to the path it was given): the second and third name
		// are valid but not in their cleaned form.
		switch n {
		case "b":
			p = e.dir + "//" + n
		case "c":
			p = e.dir + "/./" + n
		}
		e.names = append(e.names, p)
	}
	return e
}

func (e *fcEnv) openFDs() int {
	ents, err := os.ReadDir("/proc/self/fd")
	if err != nil {
		panic(infraError{err})
	}
	n := 0
	for _, en := range ents {
		t, err := os.Readlink("/proc/self/fd/" + en.Name())
		if err == nil && strings.HasPrefix(t, e.dir+"/") {
			n++
		}
	}
	return n
}

type fcStats struct {
	nontrivial bool
	many       bool
}

func runFC(e *fcEnv, c FCCase) (st fcStats, v *Violation) {
	v = guard(0, "filecache", func() *Violation {
		var v2 *Violation
		st, v2 = runFCInner(e, c)
		return v2
	})
	return st, v
}

func runFCInner(e *fcEnv, c FCCase) (st fcStats, v *Violation) {
	fc := filecache.New(c.Cap)
	if c.Callback {
		fc.SetOnEvicted(func(f *os.File, refs int) {
			if refs < 0 {
				panic(fmt.Sprintf("eviction callback got a negative reference count %d", refs))
			}
		})
	}
	capacity := c.Cap
	if capacity < 0 {
		capacity = 0
	}
	type lentH struct {
		f    *os.File
		name int
	}
	var lent []lentH
	disturbedWhileLent := map[int]bool{} // names whose handle was lent during an eviction-type call
	defer func() {
		// Never leave descriptors behind, whatever happened.
		for _, l := range lent {
			l.f.Close()
		}
		fc.Clear()
	}()
	check := func(i int, what string) *Violation {
		distinct := map[*os.File]bool{}
		for _, l := range lent {
			distinct[l.f] = true
			if _, err := l.f.Stat(); err != nil {
				return viol("lent-handle-closed|"+what+"|", i, "handle of %s is lent out but unusable after %s: %v", filepath.Base(e.names[l.name]), what, err)
			}
		}
		if n := e.openFDs(); n > capacity+len(distinct) {
			return viol("too-many-descriptors|"+what+"|", i, "%d descriptors open on the test files, capacity %d + %d lent handles", n, capacity, len(distinct))
		}
		return nil
	}
	for i, op := range c.Ops {
		what := op.K
		switch op.K {
		case "open":
			n := op.A % c.Names
			f, err := fc.Open(e.names[n])
			if err != nil {
				return st, viol("open-error|open|"+errClass(err), i, "Open: %v", err)
			}
			if disturbedWhileLent[n] {
				st.nontrivial = true
			}
			lent = append(lent, lentH{f, n})
		case "openmany":
			// Many simultaneous holders of one name (hundreds of concurrent
			// readers of one index file): A = name + 3*count.
			n := op.A % 3 % c.Names
			for k := 0; k < op.A/3; k++ {
				f, err := fc.Open(e.names[n])
				if err != nil {
					return st, viol("open-error|open|"+errClass(err), i, "Open: %v", err)
				}
				lent = append(lent, lentH{f, n})
			}
			st.many = true
		case "close":
			if len(lent) == 0 {
				continue
			}
			j := op.A % len(lent)
			l := lent[j]
			lent = append(lent[:j], lent[j+1:]...)
			if err := fc.Close(l.f); err != nil {
				sym := "error"
				if errors.Is(err, os.ErrClosed) {
					sym = "already-closed"
				}
				return st, viol("close-of-lent-handle-failed|close|"+sym, i, "Close of a lent handle of %s returned %v", filepath.Base(e.names[l.name]), err)
			}
		case "remove":
			fc.Remove(e.names[op.A%c.Names])
			for _, l := range lent {
				disturbedWhileLent[l.name] = true
			}
		case "clear":
			fc.Clear()
			for _, l := range lent {
				disturbedWhileLent[l.name] = true
			}
		case "resize":
			fc.SetCacheSize(op.A)
			capacity = op.A
			for _, l := range lent {
				disturbedWhileLent[l.name] = true
			}
		default:
			panic(infraError{fmt.Errorf("unknown filecache op %q", op.K)})
		}
		if v := check(i, what); v != nil {
			return st, v
		}
	}
	n := len(c.Ops)
	for len(lent) > 0 {
		l := lent[len(lent)-1]
		lent = lent[:len(lent)-1]
		if err := fc.Close(l.f); err != nil {
			return st, viol("close-of-lent-handle-failed|final|"+errClass(err), n, "Close of a lent handle returned %v", err)
		}
		if len(lent) > 64 && len(lent)%16 != 0 {
			continue // many holders: look at every 16th step and at the last 64
		}
		if v := check(n, "final-close"); v != nil {
			return st, v
		}
	}
	fc.Clear()
	if left := e.openFDs(); left != 0 {
		return st, viol("descriptor-leak|final|", n, "%d descriptor(s) still open after every handle was released and the cache cleared", left)
	}
	return st, nil
}

func genFC(t *rapid.T) FCCase {
	c := FCCase{Cap: rapid.IntRange(0, 3).Draw(t, "cap"), Names: 3}
	c.Callback = weighted(t, "callback", []int{3, 1}) == 1
	w := []int{rapid.IntRange(2, 6).Draw(t, "w_open"), rapid.IntRange(1, 5).Draw(t, "w_close"), rapid.IntRange(0, 3).Draw(t, "w_remove"),
		rapid.IntRange(0, 2).Draw(t, "w_clear"), rapid.IntRange(0, 3).Draw(t, "w_resize")}
	kinds := []string{"open", "close", "remove", "clear", "resize"}
	c.Ops = rapid.SliceOfN(rapid.Custom(func(t *rapid.T) FCOp {
		op := FCOp{K: kinds[weighted(t, "kind", w)]}
		switch op.K {
		case "open", "remove":
			op.A = rapid.IntRange(0, 2).Draw(t, "name")
		case "close":
			op.A = rapid.IntRange(0, 7).Draw(t, "which")
		case "resize":
			op.A = rapid.IntRange(0, 3).Draw(t, "size")
		}
		return op
	}), 1, 60).Draw(t, "ops")
	return c
}

// genFCMany: a short random sequence with one burst of 200..520 simultaneous
// holders of one name in it (counts around the powers of two).
func genFCMany(t *rapid.T) FCCase {
	c := genFC(t)
	if len(c.Ops) > 16 {
		c.Ops = c.Ops[:16]
	}
	if c.Cap == 0 && weighted(t, "cap0", []int{1, 3}) == 1 {
		c.Cap = rapid.IntRange(1, 3).Draw(t, "capmany")
	}
	count := []int{200, 254, 255, 256, 257, 300, 511, 512, 513, 520}[rapid.IntRange(0, 9).Draw(t, "holders")]
	at := rapid.IntRange(0, len(c.Ops)).Draw(t, "manyAt")
	many := FCOp{K: "openmany", A: rapid.IntRange(0, 2).Draw(t, "manyname") + 3*count}
	disturb := FCOp{K: []string{"remove", "clear", "resize", "open"}[rapid.IntRange(0, 3).Draw(t, "disturb")], A: rapid.IntRange(0, 2).Draw(t, "disturbarg")}
	ops := append([]FCOp{}, c.Ops[:at]...)
	ops = append(ops, many, disturb)
	c.Ops = append(ops, c.Ops[at:]...)
	return c
}

// exhaustiveFC enumerates all call sequences up to a depth. The alphabet of
// Close depends on the number of lent handles, which is a function of the
// prefix, so it is tracked during enumeration.
func exhaustiveFC(depth, shard, shards int, fn func(FCCase) bool) {
	seq := 0
	var rec func(cap0 int, ops []FCOp, lent int) bool
	rec = func(cap0 int, ops []FCOp, lent int) bool {
		if len(ops) > 0 {
			seq++
			if seq%shards == shard {
				if !fn(FCCase{Cap: cap0, Names: 2, Ops: append([]FCOp{}, ops...)}) {
					return false
				}
			}
		}
		if len(ops) == depth {
			return true
		}
		var next []FCOp
		for n := 0; n < 2; n++ {
			next = append(next, FCOp{K: "open", A: n}, FCOp{K: "remove", A: n})
		}
		for j := 0; j < lent; j++ {
			next = append(next, FCOp{K: "close", A: j})
		}
		next = append(next, FCOp{K: "clear"})
		for s := 0; s < 3; s++ {
			next = append(next, FCOp{K: "resize", A: s})
		}
		for _, o := range next {
			l := lent
			if o.K == "open" {
				l++
			} else if o.K == "close" {
				l--
			}
			if !rec(cap0, append(ops, o), l) {
				return false
			}
		}
		return true
	}
	for cap0 := 0; cap0 < 3; cap0++ {
		if !rec(cap0, nil, 0) {
			return
		}
	}
}

// runFCConcurrent: users open/use/close handles while a disturber removes,
// clears and resizes. Free-running (real scheduling); the oracle is the same
// handle model.
func runFCConcurrent(e *fcEnv, users, rounds int, cap0 int, callback bool) *Violation {
	fc := filecache.New(cap0)
	if callback {
		// A callback that gives the processor away: legal user code, and it
		// makes the time the cache spends inside the callback observable.
		fc.SetOnEvicted(func(*os.File, int) { runtime.Gosched() })
	}
	var uwg sync.WaitGroup
	var barrier sync.RWMutex
	var first atomic.Pointer[Violation]
	stop := make(chan struct{})
	for u := 0; u < users; u++ {
		u := u
		uwg.Add(1)
		go func() {
			defer uwg.Done()
			for i := 0; i < rounds; i++ {
				name := e.names[(u+i)%3]
				barrier.RLock()
				f, err := fc.Open(name)
				if err != nil {
					barrier.RUnlock()
					first.CompareAndSwap(nil, viol("open-error|concurrent|"+errClass(err), i, "Open: %v", err))
					return
				}
				buf := make([]byte, 1)
				if _, err := f.ReadAt(buf, 0); err != nil {
					first.CompareAndSwap(nil, viol("lent-handle-closed|concurrent|", i, "lent handle unusable: %v", err))
				} else if buf[0] != filepath.Base(name)[0] {
					first.CompareAndSwap(nil, viol("lent-handle-other-file|concurrent|", i, "lent handle of %s reads %q", filepath.Base(name), buf))
				}
				if err := fc.Close(f); err != nil {
					first.CompareAndSwap(nil, viol("close-of-lent-handle-failed|concurrent|", i, "Close returned %v", err))
				}
				barrier.RUnlock()
			}
		}()
	}
	// After a resize the disturber waits until no handle is lent out (the
	// users hold the barrier from Open to Close) and checks the descriptor
	// bound for the capacity it has just set.
	bound := func(i int, what string) {
		barrier.Lock()
		if n, c := e.openFDs(), fc.Cap(); n > c {
			first.CompareAndSwap(nil, viol("too-many-descriptors|concurrent|"+what, i, "%d descriptors open on the test files with nothing lent out right after %s, capacity is %d", n, what, c))
		}
		barrier.Unlock()
	}
	disturberDone := make(chan struct{})
	go func() {
		defer close(disturberDone)
		for i := 0; ; i++ {
			select {
			case <-stop:
				return
			default:
			}
			switch i % 5 {
			case 0:
				fc.Remove(e.names[i%3])
			case 1:
				fc.SetCacheSize(i % 4)
				bound(i, "SetCacheSize")
			case 2:
				fc.Clear()
			case 3:
				fc.SetCacheSize(2)
				if i%3 == 0 {
					bound(i, "SetCacheSize")
				}
			case 4:
				fc.Remove(e.names[(i+1)%3])
			}
		}
	}()
	uwg.Wait()
	close(stop)
	<-disturberDone
	if v := first.Load(); v != nil {
		fc.Clear()
		return v
	}
	// Quiescent, nothing lent out: the descriptor bound must hold for the
	// capacity the cache has now, and for capacity 0 after disabling it.
	if n, c := e.openFDs(), fc.Cap(); n > c {
		fc.Clear()
		return viol("too-many-descriptors|concurrent|quiescent", 0, "%d descriptors open on the test files after the concurrent run with nothing lent out, capacity is %d", n, c)
	}
	fc.SetCacheSize(0)
	if n := e.openFDs(); n > 0 {
		fc.Clear()
		return viol("too-many-descriptors|concurrent|after-disabling", 0, "%d descriptors open on the test files with nothing lent out after SetCacheSize(0)", n)
	}
	fc.Clear()
	if left := e.openFDs(); left != 0 {
		return viol("descriptor-leak|concurrent|", 0, "%d descriptor(s) still open after the concurrent run", left)
	}
	return nil
}

func TestC14(t *testing.T) {
	ev := newEvidence("C14", "exploration", c14Rule)
	defer ev.Write()
	e := newFCEnv()
	defer os.RemoveAll(e.dir)
	if envReplay != "" {
		var c FCCase
		readReplay(envReplay, &c)
		_, v := runFC(e, c)
		ev.Record(c, true)
		if v != nil {
			ev.Report(v, c)
			t.Fatalf("replay: %v", v)
		}
		return
	}
	for _, f := range regressFiles("C14") {
		var c FCCase
		readReplay(f, &c)
		_, v := runFC(e, c)
		ev.Record(c, true, "regression-case")
		if v != nil && ev.Report(v, c) {
			t.Fatalf("regression case %s: %v", f, v)
		}
	}
	depth := 5
	if thorough() {
		depth = 6
	}
	failed := false
	exh := 0
	exhaustiveFC(depth, envShard, envShards, func(c FCCase) bool {
		st, v := runFC(e, c)
		exh++
		ev.RecordEnumerated(c, st.nontrivial, "exhaustive")
		if v != nil && ev.Report(v, c) {
			t.Errorf("%v", v)
			failed = true
			return false
		}
		return true
	})
	ev.Extra["exhaustive_cases"] = exh
	ev.Extra["exhaustive_depth"] = depth
	if failed {
		return
	}
	setRapidChecks(budget(20000, 40000))
	rapid.Check(t, func(rt *rapid.T) {
		if pastDeadline() {
			ev.Skip()
			return
		}
		c := genFC(rt)
		st, v := runFC(e, c)
		ev.Record(c, st.nontrivial, "random")
		if v != nil && ev.Report(v, c) {
			rt.Fatalf("%v", v)
		}
	})
	if t.Failed() {
		return
	}
	// Many simultaneous holders of one name.
	setRapidChecks(budget(160, 600))
	rapid.Check(t, func(rt *rapid.T) {
		if pastDeadline() {
			ev.Skip()
			return
		}
		c := genFCMany(rt)
		st, v := runFC(e, c)
		ev.Record(c, st.many, "many-holders")
		if v != nil && ev.Report(v, c) {
			rt.Fatalf("%v", v)
		}
	})
	if t.Failed() {
		return
	}
	// Concurrent part.
	nConc := budget(40, 60)
	for i := 0; i < nConc && !pastDeadline(); i++ {
		c := struct {
			Users, Rounds, Cap int
			Callback           bool
		}{2 + i%3, 300, i % 4, i%2 == 1}
		v := runFCConcurrent(e, c.Users, c.Rounds, c.Cap, c.Callback)
		ev.RecordEnumerated(c, true, "concurrent")
		if v != nil && ev.Report(v, c) {
			t.Fatalf("%v", v)
		}
	}
	ev.finish(t)
}
