package checks

import (
	"github.com/ipfs/go-cid"
	"github.com/ipld/go-storethehash/store"
	"pgregory.net/rapid"
)

// weighted draws an index with the given weights.
func weighted(t *rapid.T, label string, weights []int) int {
	total := 0
	for _, w := range weights {
		total += w
	}
	if total == 0 {
		return 0
	}
	x := rapid.IntRange(0, total-1).Draw(t, label)
	for i, w := range weights {
		if x < w {
			return i
		}
		x -= w
	}
	return len(weights) - 1
}

var (
	bitChoices  = []uint8{8, 9, 10, 12, 15, 16, 17, 20, 24}
	bitWeights  = []int{30, 14, 6, 10, 6, 12, 8, 1, 1}
	sizeChoices = []uint32{1, 16, 33, 64, 100, 256, 1024, 4096, 65536, 0}
	sizeWeights = []int{6, 8, 8, 10, 10, 10, 8, 4, 3, 6}
)

type cfgGenOpts struct {
	onlyMultihash bool
	smallBits     bool // restrict to bit sizes <= 17 (cheap opens)
	smallFiles    bool // favour small file sizes so that files roll over
}

func genConfig(t *rapid.T, o cfgGenOpts) Config {
	var c Config
	c.Primary = store.MultihashPrimary
	if !o.onlyMultihash && weighted(t, "primary", []int{3, 1}) == 1 {
		c.Primary = store.CIDPrimary
	}
	c.Immutable = weighted(t, "immutable", []int{3, 1}) == 1
	bw := bitWeights
	if o.smallBits {
		bw = []int{30, 14, 6, 10, 6, 12, 8, 0, 0}
	}
	c.Bits = bitChoices[weighted(t, "bits", bw)]
	sw := sizeWeights
	if o.smallFiles {
		sw = []int{8, 10, 10, 12, 12, 10, 6, 1, 1, 2}
	}
	c.IdxSize = sizeChoices[weighted(t, "idxsize", sw)]
	c.PrimSize = sizeChoices[weighted(t, "primsize", sw)]
	c.FileCache = []int{0, 1, 2, 512}[weighted(t, "filecache", []int{2, 2, 2, 4})]
	c.Sync = weighted(t, "syncOnFlush", []int{4, 1}) == 1
	if weighted(t, "highFileNumbers", []int{7, 1}) == 1 {
		// A long-lived store: file numbers so high that positions exceed 32 bits.
		c.StartPrim = startFileFor(c.PrimSize, rapid.IntRange(0, 2).Draw(t, "startPrimDelta"))
		c.StartIdx = startFileFor(c.IdxSize, rapid.IntRange(0, 2).Draw(t, "startIdxDelta"))
	}
	return c
}

// startFileFor returns a file number next to the one at which
// fileNumber x fileSize reaches 2^32 (capped at 2^31).
func startFileFor(size uint32, delta int) uint32 {
	sz := effectiveSize(size)
	n := (uint64(1)<<32+sz-1)/sz - 1 + uint64(delta)
	if n > 1<<31 {
		n = 1 << 31
	}
	return uint32(n)
}

var chunkBoundaryBuckets = []uint32{4095, 4096, 4097, 8191, 8192, 8193, 12287, 12288, 12290}

// setBucket rewrites the leading bytes of a digest so that it falls into the
// given bucket (modulo the table size); the remaining high bits are kept.
func setBucket(d []byte, bits uint8, bucket uint32) {
	mask := uint32(1)<<bits - 1
	v := uint32(d[0]) | uint32(d[1])<<8 | uint32(d[2])<<16 | uint32(d[3])<<24
	v = v&^mask | bucket&mask
	d[0], d[1], d[2], d[3] = byte(v), byte(v>>8), byte(v>>16), byte(v>>24)
}

// genKeys builds a pool of distinct digests, none a proper prefix of another,
// concentrated in few buckets and sharing long prefixes by construction.
func genKeys(t *rapid.T, cfg Config, minKeys, maxKeys int) []KeySpec {
	n := rapid.IntRange(minKeys, maxKeys).Draw(t, "nkeys")
	// 64-byte digests make multihashes / CIDs of more than 64 bytes.
	coreLen := []int{4, 5, 6, 8, 12, 20, 32, 40, 64}[weighted(t, "corelen", []int{2, 6, 8, 8, 4, 2, 6, 1, 2})]
	alpha := []int{2, 3, 256}[weighted(t, "alphabet", []int{5, 3, 2})]
	base := rapid.SliceOfN(rapid.Byte(), 4, 4).Draw(t, "base")
	if cfg.Bits >= 13 && weighted(t, "chunkBoundary", []int{2, 1}) == 1 {
		// Bucket numbers next to a multiple of 4096: scans of the bucket table
		// work in chunks, and the first/last bucket of a chunk is a boundary
		// that uniformly drawn keys practically never hit.
		setBucket(base, cfg.Bits, chunkBoundaryBuckets[rapid.IntRange(0, len(chunkBoundaryBuckets)-1).Draw(t, "boundaryBucket")])
	} else if weighted(t, "tableEdge", []int{5, 1}) == 1 {
		// The first and the last buckets of the table (loops over the table
		// end there).
		last := uint32(1)<<cfg.Bits - 1
		setBucket(base, cfg.Bits, []uint32{0, 1, last - 1, last, last}[rapid.IntRange(0, 4).Draw(t, "edgeBucket")])
	}
	nGroups := 1 + weighted(t, "groups", []int{5, 4, 2})
	prefixes := make([][]byte, nGroups)
	prefixes[0] = base
	for g := 1; g < nGroups; g++ {
		p := append([]byte{}, base...)
		bit := rapid.IntRange(0, 31).Draw(t, "flipbit")
		p[bit/8] ^= 1 << (bit % 8)
		prefixes[g] = p
	}
	// A common stem behind the bucket bytes: in a third of the pools all keys
	// of a group agree on a drawn number of further bytes, so that the first
	// differing byte of two keys lies anywhere in the key, also far behind the
	// bucket bytes (small alphabets alone make keys differ within the first
	// few bytes).
	var stem []byte
	if coreLen > 5 && weighted(t, "stem", []int{2, 1}) == 1 {
		stem = rapid.SliceOfN(rapid.Byte(), 1, coreLen-5).Draw(t, "stembytes")
	}
	seen := map[string]bool{}
	var keys []KeySpec
	for i := 0; i < n; i++ {
		g := 0
		if nGroups > 1 {
			g = rapid.IntRange(0, nGroups-1).Draw(t, "group")
		}
		d := append([]byte{}, prefixes[g]...)
		d = append(d, stem...)
		for len(d) < coreLen {
			var b byte
			if alpha == 256 {
				b = rapid.Byte().Draw(t, "b")
			} else {
				b = []byte{0x00, 0x01, 0xff}[rapid.IntRange(0, alpha-1).Draw(t, "b")]
			}
			d = append(d, b)
		}
		if seen[string(d)] {
			continue
		}
		seen[string(d)] = true
		// Mixed lengths: cores are distinct and of equal length, so extending
		// some of them keeps the pool prefix-free.
		if coreLen != 32 && coreLen != 64 && weighted(t, "extend", []int{4, 1}) == 1 {
			ext := rapid.SliceOfN(rapid.Byte(), 1, 6).Draw(t, "ext")
			d = append(d, ext...)
		}
		ks := KeySpec{Digest: d, Code: 0x00}
		if len(d) == 32 {
			ks.Code = []uint64{0x12, 0x00, 0x16, 0xb220}[weighted(t, "code", []int{6, 2, 1, 1})]
		}
		if len(d) == 64 {
			ks.Code = []uint64{0x13, 0x00, 0x14, 0xb240}[weighted(t, "code64", []int{4, 2, 1, 1})]
		}
		if cfg.Primary == store.CIDPrimary {
			ks.Codec = []uint64{cid.Raw, cid.DagProtobuf, cid.DagCBOR}[weighted(t, "codec", []int{3, 2, 1})]
			if len(d) == 32 && ks.Code == 0x12 && weighted(t, "cidv0", []int{2, 1}) == 1 {
				ks.CidV0 = true
			}
		}
		keys = append(keys, ks)
	}
	return keys
}

// extendKeys adds keys to a pool until it has n of them. The new digests share
// the bucket of the first key (bit sizes up to 24), are as long as the longest
// digest of the pool and are checked against all of them, so the pool stays duplicate-free and
// prefix-free.
func extendKeys(keys []KeySpec, n int) []KeySpec {
	maxLen := 0
	for _, k := range keys {
		if len(k.Digest) > maxLen {
			maxLen = len(k.Digest)
		}
	}
	related := func(a, b []byte) bool {
		m := len(a)
		if len(b) < m {
			m = len(b)
		}
		for i := 0; i < m; i++ {
			if a[i] != b[i] {
				return false
			}
		}
		return true // equal, or one is a prefix of the other
	}
	for salt := 0; len(keys) < n && salt < 4096; salt++ {
		// Same bucket for every bit size up to 24 (only byte 3 differs from
		// the first key), as long as the longest digest of the pool.
		d := append([]byte{}, keys[0].Digest[:4]...)
		d[3] ^= byte(1 + salt%255)
		for len(d) < maxLen {
			d = append(d, 0xe0|byte((len(d)+salt/255)&0x0f))
		}
		ok := true
		for _, k := range keys {
			if related(k.Digest, d) {
				ok = false
			}
		}
		if ok {
			keys = append(keys, KeySpec{Digest: d, Code: 0x00, Codec: keys[0].Codec})
		}
	}
	return keys
}

// opMix is the per-case operation mix.
type opMix struct {
	kinds   []string
	weights []int
}

func genMix(t *rapid.T, kinds []string, maxW []int) opMix {
	m := opMix{kinds: kinds, weights: make([]int, len(kinds))}
	for i := range kinds {
		m.weights[i] = rapid.IntRange(0, maxW[i]).Draw(t, "w_"+kinds[i])
	}
	// Always allow puts, otherwise the history is empty of content.
	if m.weights[0] == 0 {
		m.weights[0] = 1
	}
	return m
}

var vlenChoices = []int{0, 1, 2, 3, 5, 8, 13, 21, 40, 64, 200, 70000}

func genOp(t *rapid.T, m opMix, nKeys int, cfg Config, bigValues bool) Op {
	op := Op{K: m.kinds[weighted(t, "kind", m.weights)]}
	switch op.K {
	case opPut, opRePut, opGet, opHas, opSize, opRemove:
		op.Key = rapid.IntRange(0, nKeys-1).Draw(t, "key")
		if cfg.Primary == store.CIDPrimary && weighted(t, "alt", []int{5, 1}) == 1 {
			op.Alt = true
		}
	}
	switch op.K {
	case opPut, opRePut:
		vw := []int{5, 3, 2, 3, 4, 4, 4, 4, 3, 2, 1, 0}
		if bigValues {
			vw[11] = 1
		}
		op.VLen = vlenChoices[weighted(t, "vlen", vw)]
		if op.VLen == 0 {
			op.VNil = rapid.Bool().Draw(t, "vnil")
		}
	case opReopen:
		op.A = rapid.IntRange(0, 2).Draw(t, "mode")
	case opPGC:
		op.A = []int{0, 1, 10, 25, 50, 75, 85, 100}[rapid.IntRange(0, 7).Draw(t, "lowuse")]
		if weighted(t, "budgeted", []int{3, 1}) == 1 {
			op.B = rapid.IntRange(1, 12).Draw(t, "budget")
		}
	case opIGC:
		op.A = rapid.IntRange(0, 1).Draw(t, "scanfree")
		if weighted(t, "budgeted", []int{3, 1}) == 1 {
			op.B = rapid.IntRange(1, 12).Draw(t, "budget")
		}
	}
	return op
}

// genOps draws a history as a list of small groups (an operation with
// optional flushes around it, GC actions optionally repeated) and flattens
// it, so that flushes sit next to writes and GC cycles often enough while
// the list still shrinks element-wise.
func genOps(t *rapid.T, m opMix, nKeys int, cfg Config, minOps, maxOps int, bigValues bool) []Op {
	flushy := rapid.IntRange(0, 3).Draw(t, "flushy") // per-case inclination to flush
	groups := rapid.SliceOfN(rapid.Custom(func(t *rapid.T) []Op {
		op := genOp(t, m, nKeys, cfg, bigValues)
		g := []Op{op}
		switch op.K {
		case opPut, opRePut, opRemove:
			if flushy > 0 && weighted(t, "flushAfter", []int{6 - flushy, flushy}) == 1 {
				g = append(g, Op{K: opFlush})
			}
		case opPGC, opIGC:
			if weighted(t, "flushBefore", []int{2, 3}) == 1 {
				g = append([]Op{{K: opFlush}}, g...)
			}
			if weighted(t, "flushAfterGC", []int{3, 2}) == 1 {
				g = append(g, Op{K: opFlush})
			}
			if weighted(t, "again", []int{3, 2}) == 1 {
				again := op
				if weighted(t, "otherGC", []int{2, 1}) == 1 {
					again = genOp(t, opMix{kinds: []string{opPGC, opIGC}, weights: []int{1, 1}}, nKeys, cfg, false)
				}
				g = append(g, again)
			}
		}
		return g
	}), minOps, maxOps).Draw(t, "ops")
	var ops []Op
	for _, g := range groups {
		ops = append(ops, g...)
	}
	return ops
}

// genIndexGCFocused builds a history aimed at the index collector: several
// buckets with one or two keys each, index files that hold a handful of
// record lists, and rounds of [rewrite a drawn subset of the buckets, flush,
// index GC], with occasional reopen by rescan. Superseded record lists then
// sit between live ones, get marked in different cycles and are merged later.
func genIndexGCFocused(t *rapid.T, withPrimaryGC bool) SeqCase {
	var c SeqCase
	c.Cfg = Config{Primary: store.MultihashPrimary, Bits: 8, FileCache: []int{0, 2, 512}[rapid.IntRange(0, 2).Draw(t, "filecache")]}
	if !withPrimaryGC && weighted(t, "cid", []int{3, 1}) == 1 {
		c.Cfg.Primary = store.CIDPrimary
	}
	c.Cfg.IdxSize = []uint32{48, 64, 100, 160, 256, 400}[rapid.IntRange(0, 5).Draw(t, "idxsize")]
	c.Cfg.PrimSize = []uint32{64, 256, 1024, 0}[rapid.IntRange(0, 3).Draw(t, "primsize")]
	nb := rapid.IntRange(3, 7).Draw(t, "buckets")
	base := rapid.SliceOfN(rapid.Byte(), 5, 5).Draw(t, "base")
	// Larger tables, with the first bucket at a chunk boundary of the table.
	boundary := -1
	if bb := weighted(t, "bigtable", []int{6, 1, 1}); bb > 0 {
		c.Cfg.Bits = []uint8{8, 13, 16}[bb]
		boundary = rapid.IntRange(0, len(chunkBoundaryBuckets)-1).Draw(t, "boundaryBucket")
	}
	seen := map[string]bool{}
	for b := 0; b < nb; b++ {
		d := append([]byte{}, base...)
		d[0] = byte(int(base[0]) + b*17)
		if b == 0 && boundary >= 0 {
			setBucket(d, c.Cfg.Bits, chunkBoundaryBuckets[boundary])
		}
		if seen[string(d[:4])] {
			continue
		}
		seen[string(d[:4])] = true
		c.Keys = append(c.Keys, KeySpec{Digest: d, Code: 0x00, Codec: cid.Raw})
		if weighted(t, "second", []int{2, 1}) == 1 {
			d2 := append([]byte{}, d...)
			d2[4] ^= 0x01
			c.Keys = append(c.Keys, KeySpec{Digest: d2, Code: 0x00, Codec: cid.Raw})
		}
	}
	rounds := rapid.IntRange(3, 12).Draw(t, "rounds")
	for r := 0; r < rounds; r++ {
		n := rapid.IntRange(1, 3).Draw(t, "nwrites")
		for i := 0; i < n; i++ {
			k := rapid.IntRange(0, len(c.Keys)-1).Draw(t, "key")
			if weighted(t, "rm", []int{6, 1}) == 1 {
				c.Ops = append(c.Ops, Op{K: opRemove, Key: k})
			} else {
				c.Ops = append(c.Ops, Op{K: opPut, Key: k, VLen: rapid.IntRange(1, 12).Draw(t, "vlen")})
			}
		}
		c.Ops = append(c.Ops, Op{K: opFlush})
		switch weighted(t, "after", []int{6, 1, 1, 1}) {
		case 0:
			c.Ops = append(c.Ops, Op{K: opIGC, A: rapid.IntRange(0, 1).Draw(t, "scanfree")})
		case 1:
			c.Ops = append(c.Ops, Op{K: opReopen, A: 1})
		case 2:
			if withPrimaryGC {
				c.Ops = append(c.Ops, Op{K: opPGC, A: 50})
			}
		}
		if weighted(t, "check", []int{3, 1}) == 1 {
			c.Ops = append(c.Ops, Op{K: opCheckAll})
		}
	}
	return c
}
