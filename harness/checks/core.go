package checks

import (
	"bytes"
	"context"
	"crypto/sha256"
	"encoding/hex"
	"encoding/json"
	"errors"
	"fmt"
	"io"
	"os"
	"path/filepath"
	"runtime/debug"
	"sort"
	"strings"
	"sync"
	"sync/atomic"
	"time"

	"github.com/ipfs/go-cid"
	"github.com/ipld/go-storethehash/store"
	"github.com/ipld/go-storethehash/store/index"
	mhprimary "github.com/ipld/go-storethehash/store/primary/multihash"
	"github.com/ipld/go-storethehash/store/types"
	"github.com/multiformats/go-multihash"
)

// ---------------------------------------------------------------------------
// Configuration and keys

// Config is one legal store configuration.
type Config struct {
	Primary   string `json:"primary"` // store.MultihashPrimary | store.CIDPrimary
	Immutable bool   `json:"immutable,omitempty"`
	Bits      uint8  `json:"bits"`
	IdxSize   uint32 `json:"idx_size"`  // index file size limit, 0 = default
	PrimSize  uint32 `json:"prim_size"` // primary file size limit, 0 = default
	FileCache int    `json:"file_cache"`
	Sync      bool   `json:"sync_on_flush,omitempty"` // SyncOnFlush option (fsync as part of Flush)
	// StartPrim / StartIdx: a fresh store starts as GC leaves a long-lived
	// one whose earlier files are all gone: the header's first file is this
	// number and that (empty) file is the current one. With numbers chosen so
	// that file number x file size reaches 2^32, every position the store
	// hands out needs more than 32 bits. 0 = start at file 0 as usual.
	// StartPrim only applies to the multihash primary.
	StartPrim uint32 `json:"start_prim,omitempty"`
	StartIdx  uint32 `json:"start_idx,omitempty"`
}

// KeySpec is one key of a case's pool: a digest and how it is encoded.
type KeySpec struct {
	Digest HexBytes `json:"digest"`
	Code   uint64   `json:"code"`            // multihash function code
	CidV0  bool     `json:"cidv0,omitempty"` // CID primary: encode as CIDv0
	Codec  uint64   `json:"codec,omitempty"` // CID primary: CIDv1 codec
}

// HexBytes is a byte slice that is written as hex in JSON.
type HexBytes []byte

func (h HexBytes) MarshalJSON() ([]byte, error) {
	return json.Marshal(hex.EncodeToString(h))
}

func (h *HexBytes) UnmarshalJSON(b []byte) error {
	var s string
	if err := json.Unmarshal(b, &s); err != nil {
		return err
	}
	d, err := hex.DecodeString(s)
	if err != nil {
		return err
	}
	*h = d
	return nil
}

// Encode returns the key bytes handed to the store for this key. alt selects
// an alias encoding (same multihash, other CID codec of equal encoded
// length); it only has an effect for the CID primary with CIDv1 keys.
func (k KeySpec) Encode(primary string, alt bool) []byte {
	mh, _ := multihash.Encode(k.Digest, k.Code)
	if primary != store.CIDPrimary {
		return mh
	}
	if k.CidV0 {
		return cid.NewCidV0(mh).Bytes()
	}
	codec := k.Codec
	if alt {
		if codec == cid.Raw {
			codec = cid.DagProtobuf
		} else {
			codec = cid.Raw
		}
	}
	return cid.NewCidV1(codec, mh).Bytes()
}

// bucketOf returns the bucket a digest falls into.
func bucketOf(digest []byte, bits uint8) uint32 {
	v := uint32(digest[0]) | uint32(digest[1])<<8 | uint32(digest[2])<<16 | uint32(digest[3])<<24
	return v & ((1 << bits) - 1)
}

// digestOfKey extracts the digest from key bytes as stored by a primary.
func digestOfKey(primary string, key []byte) ([]byte, error) {
	if primary == store.CIDPrimary {
		_, c, err := cid.CidFromBytes(key)
		if err != nil {
			return nil, err
		}
		d, err := multihash.Decode(c.Hash())
		if err != nil {
			return nil, err
		}
		return d.Digest, nil
	}
	d, err := multihash.Decode(key)
	if err != nil {
		return nil, err
	}
	return d.Digest, nil
}

// ---------------------------------------------------------------------------
// Scratch directories

var scratchRoot = func() string {
	if r := os.Getenv("VERIF_SCRATCH"); r != "" {
		return r
	}
	if fi, err := os.Stat("/dev/shm"); err == nil && fi.IsDir() {
		return "/dev/shm"
	}
	return os.TempDir()
}()

func newScratch(tag string) string {
	d, err := os.MkdirTemp(scratchRoot, "vf-"+tag+"-")
	if err != nil {
		panic(infraError{fmt.Errorf("cannot create scratch dir: %w", err)})
	}
	return d
}

var bg = context.Background()

// infraError marks trouble of the harness itself (never a violation).
type infraError struct{ err error }

func (e infraError) Error() string { return "infrastructure: " + e.err.Error() }

func copyDir(src, dst string) {
	err := filepath.Walk(src, func(p string, fi os.FileInfo, err error) error {
		if err != nil {
			return err
		}
		rel, _ := filepath.Rel(src, p)
		target := filepath.Join(dst, rel)
		if fi.IsDir() {
			return os.MkdirAll(target, 0o755)
		}
		data, err := os.ReadFile(p)
		if err != nil {
			return err
		}
		return os.WriteFile(target, data, 0o644)
	})
	if err != nil {
		panic(infraError{err})
	}
}

// dirImage is the content of a directory tree: relative path -> bytes.
// Directories are recorded with a trailing slash and nil content.
type dirImage map[string][]byte

func readDirImage(root string) dirImage {
	img := dirImage{}
	err := filepath.Walk(root, func(p string, fi os.FileInfo, err error) error {
		if err != nil {
			if os.IsNotExist(err) {
				return nil
			}
			return err
		}
		rel, _ := filepath.Rel(root, p)
		if rel == "." {
			return nil
		}
		if fi.IsDir() {
			img[rel+"/"] = nil
			return nil
		}
		data, err := os.ReadFile(p)
		if err != nil {
			if os.IsNotExist(err) {
				return nil
			}
			return err
		}
		img[rel] = data
		return nil
	})
	if err != nil {
		panic(infraError{err})
	}
	return img
}

func (img dirImage) writeTo(root string) {
	names := make([]string, 0, len(img))
	for n := range img {
		names = append(names, n)
	}
	sort.Strings(names)
	if err := os.MkdirAll(root, 0o755); err != nil {
		panic(infraError{err})
	}
	for _, n := range names {
		if strings.HasSuffix(n, "/") {
			if err := os.MkdirAll(filepath.Join(root, n), 0o755); err != nil {
				panic(infraError{err})
			}
		}
	}
	for _, n := range names {
		if strings.HasSuffix(n, "/") {
			continue
		}
		p := filepath.Join(root, n)
		if err := os.MkdirAll(filepath.Dir(p), 0o755); err != nil {
			panic(infraError{err})
		}
		if err := os.WriteFile(p, img[n], 0o644); err != nil {
			panic(infraError{err})
		}
	}
}

func (img dirImage) hash() string {
	names := make([]string, 0, len(img))
	for n := range img {
		names = append(names, n)
	}
	sort.Strings(names)
	h := sha256.New()
	for _, n := range names {
		fmt.Fprintf(h, "%s\x00%d\x00", n, len(img[n]))
		h.Write(img[n])
	}
	return hex.EncodeToString(h.Sum(nil)[:12])
}

func (img dirImage) clone() dirImage {
	out := make(dirImage, len(img))
	for k, v := range img {
		out[k] = v // contents are never mutated in place
	}
	return out
}

// ---------------------------------------------------------------------------
// Opening stores

const (
	idxBase  = "index"
	dataBase = "data"
)

func storeOptions(cfg Config, extra ...store.Option) []store.Option {
	opts := []store.Option{
		store.IndexBitSize(cfg.Bits),
		store.IndexFileSize(cfg.IdxSize),
		store.PrimaryFileSize(cfg.PrimSize),
		store.FileCacheSize(cfg.FileCache),
		store.SyncOnFlush(cfg.Sync),
		// Background activity is driven by the harness, not by timers.
		store.GCInterval(time.Hour),
		store.GCTimeLimit(0),
		store.SyncInterval(time.Hour),
		store.BurstRate(1 << 40),
	}
	return append(opts, extra...)
}

// forgeStartFiles prepares a directory that holds no store yet, see
// Config.StartPrim.
func forgeStartFiles(dir string, cfg Config) {
	if cfg.StartPrim == 0 && cfg.StartIdx == 0 {
		return
	}
	if ents, err := os.ReadDir(dir); err != nil || len(ents) > 0 {
		return // not a fresh directory
	}
	if cfg.StartPrim > 0 && cfg.Primary == store.MultihashPrimary {
		hdr := fmt.Sprintf(`{"Version":1,"MaxFileSize":%d,"FirstFile":%d}`, effectiveSize(cfg.PrimSize), cfg.StartPrim)
		os.WriteFile(filepath.Join(dir, dataBase+".info"), []byte(hdr), 0o644)
		os.WriteFile(filepath.Join(dir, fmt.Sprintf("%s.%d", dataBase, cfg.StartPrim)), nil, 0o644)
	}
	if cfg.StartIdx > 0 {
		prim := uint64(0)
		if cfg.Primary == store.MultihashPrimary {
			prim = effectiveSize(cfg.PrimSize)
		}
		hdr := fmt.Sprintf(`{"Version":3,"BucketsBits":%d,"MaxFileSize":%d,"FirstFile":%d,"PrimaryFileSize":%d}`, cfg.Bits, effectiveSize(cfg.IdxSize), cfg.StartIdx, prim)
		os.WriteFile(filepath.Join(dir, idxBase+".info"), []byte(hdr), 0o644)
		os.WriteFile(filepath.Join(dir, fmt.Sprintf("%s.%d", idxBase, cfg.StartIdx)), nil, 0o644)
	}
}

func openStore(dir string, cfg Config, extra ...store.Option) (*store.Store, error) {
	forgeStartFiles(dir, cfg)
	return store.OpenStore(context.Background(), cfg.Primary, filepath.Join(dir, dataBase), filepath.Join(dir, idxBase), cfg.Immutable, storeOptions(cfg, extra...)...)
}

// ---------------------------------------------------------------------------
// Budget context: reports DeadlineExceeded after a number of Err() calls, the
// signal the GC code polls between files and records.

type budgetCtx struct {
	context.Context
	left atomic.Int64
	done chan struct{}
	hit  atomic.Bool
}

func newBudgetCtx(calls int) *budgetCtx {
	b := &budgetCtx{Context: context.Background(), done: make(chan struct{})}
	b.left.Store(int64(calls))
	return b
}

func (b *budgetCtx) Err() error {
	if b.hit.Load() {
		return context.DeadlineExceeded
	}
	if b.left.Add(-1) < 0 {
		if b.hit.CompareAndSwap(false, true) {
			close(b.done)
		}
		return context.DeadlineExceeded
	}
	return nil
}

func (b *budgetCtx) Done() <-chan struct{} { return b.done }

func (b *budgetCtx) Deadline() (time.Time, bool) { return time.Time{}, false }

// gcCtx returns the context for a GC action: budget 0 means unlimited.
func gcCtx(budget int) context.Context {
	if budget <= 0 {
		return context.Background()
	}
	return newBudgetCtx(budget - 1)
}

// ---------------------------------------------------------------------------
// Violations

// Violation describes a failed oracle clause.
type Violation struct {
	Property string `json:"property"`
	// Signature classifies the failure (oracle clause | operation or point |
	// symptom class). It is computed from the failure, not from the input.
	Signature string `json:"signature"`
	Detail    string `json:"detail"`
	Step      int    `json:"step"`
}

func (v *Violation) Error() string {
	return fmt.Sprintf("%s [%s] at step %d: %s", v.Property, v.Signature, v.Step, v.Detail)
}

func viol(sig string, step int, format string, args ...interface{}) *Violation {
	return &Violation{Signature: sig, Step: step, Detail: fmt.Sprintf(format, args...)}
}

// repoPanicSite returns the innermost frame of the module under test in a
// panic stack, or "" if there is none.
func repoPanicSite(stack string) string {
	lines := strings.Split(stack, "\n")
	for i, l := range lines {
		if strings.HasPrefix(l, "github.com/ipld/go-storethehash") && !strings.Contains(l, "/vhook.") {
			fn := l
			if j := strings.LastIndex(fn, "("); j > 0 {
				fn = fn[:j]
			}
			fn = strings.TrimPrefix(fn, "github.com/ipld/go-storethehash/")
			_ = i
			return fn
		}
	}
	return ""
}

// guard runs fn and converts a panic inside the module under test into a
// violation; harness panics (infraError) are re-raised.
func guard(step int, what string, fn func() *Violation) (v *Violation) {
	watchdogEnter(step, what)
	defer watchdogLeave()
	defer func() {
		if r := recover(); r != nil {
			if ie, ok := r.(infraError); ok {
				panic(ie)
			}
			stack := string(debug.Stack())
			site := repoPanicSite(stack)
			if site == "" {
				panic(r)
			}
			v = viol("panic|"+what+"|"+site, step, "panic in %s: %v", site, r)
		}
	}()
	return fn()
}

// ---------------------------------------------------------------------------
// Small helpers

func isNotFoundErr(err error) bool { return errors.Is(err, os.ErrNotExist) }

func mustJSON(v interface{}) string {
	b, err := json.Marshal(v)
	if err != nil {
		return fmt.Sprintf("<%v>", err)
	}
	return string(b)
}

func caseHash(v interface{}) string {
	b, _ := json.Marshal(v)
	h := sha256.Sum256(b)
	return hex.EncodeToString(h[:8])
}

func shortBytes(b []byte) string {
	if b == nil {
		return "nil"
	}
	if len(b) > 24 {
		return fmt.Sprintf("%x..(%d)", b[:24], len(b))
	}
	return fmt.Sprintf("%x", b)
}

// valueFor derives the value of a put operation from its position in the
// case, so values are unique per operation whenever they are long enough.
func valueFor(opIdx, vlen int, vnil bool) []byte {
	if vlen == 0 {
		if vnil {
			return nil
		}
		return []byte{}
	}
	v := make([]byte, vlen)
	for i := range v {
		v[i] = byte(0x41 + (opIdx*7+i*13)%58)
	}
	v[0] = byte(opIdx)
	if vlen > 1 {
		v[1] = byte(opIdx >> 8)
	}
	if vlen > 2 {
		v[2] = 0xA5
	}
	return v
}

// iterateStore collects the whole-store iteration as digest -> value and
// reports duplicates.
func iterateStore(s *store.Store, primary string) (map[string][]byte, []string, error) {
	out := map[string][]byte{}
	var dups []string
	it := s.NewIterator()
	for {
		k, v, err := it.Next()
		if err == io.EOF {
			return out, dups, nil
		}
		if err != nil {
			return nil, nil, err
		}
		d, err := digestOfKey(primary, k)
		if err != nil {
			return nil, nil, fmt.Errorf("iterator returned undecodable key %x: %w", k, err)
		}
		if _, ok := out[string(d)]; ok {
			dups = append(dups, hex.EncodeToString(d))
		}
		out[string(d)] = append([]byte{}, v...)
	}
}

func mhPrimaryOf(s *store.Store) *mhprimary.MultihashPrimary {
	mp, _ := s.Primary().(*mhprimary.MultihashPrimary)
	return mp
}

var _ = index.IndexVersion
var _ = types.ErrKeyExists
var _ = bytes.Equal

// closeQuietly closes a store whose verdict is already decided. A panic that
// was recovered inside module code can leave one of the store's mutexes
// locked for ever; Close would then block, so it runs on its own goroutine
// and is abandoned after a short wait.
func closeQuietly(s *store.Store) {
	done := make(chan struct{})
	go func() {
		defer close(done)
		defer func() { recover() }()
		s.Close()
	}()
	select {
	case <-done:
	case <-time.After(2 * time.Second):
	}
}

// ---------------------------------------------------------------------------
// Hang watchdog for the sequential engines. A call into the store that never
// returns is a violation of every sequential property (the reference model
// always returns). The verdict is taken from goroutine states, not from
// elapsed time alone: the calling goroutine must sit in a lock / channel wait
// with a frame of the module on its stack, unchanged across two samples, for
// a call that has been running for a long time. The goroutine cannot be
// recovered, so the violation is recorded, the evidence written and the
// process ended.

var watchdog struct {
	mu      sync.Mutex
	gid     int64
	since   time.Time
	step    int
	what    string
	depth   int
	ev      *Evidence
	curCase func() interface{}
	started bool
}

func watchdogEnter(step int, what string) {
	watchdog.mu.Lock()
	if watchdog.depth == 0 {
		watchdog.gid = goroutineID()
		watchdog.since = time.Now()
		watchdog.step, watchdog.what = step, what
	}
	watchdog.depth++
	watchdog.mu.Unlock()
}

func watchdogLeave() {
	watchdog.mu.Lock()
	watchdog.depth--
	watchdog.mu.Unlock()
}

// watchdogStart arms the watchdog for a check. curCase returns the case being
// evaluated (for the replay file).
func watchdogStart(ev *Evidence, curCase func() interface{}) {
	watchdog.mu.Lock()
	watchdog.ev, watchdog.curCase = ev, curCase
	if watchdog.started {
		watchdog.mu.Unlock()
		return
	}
	watchdog.started = true
	watchdog.mu.Unlock()
	go func() {
		blockedState := func(gid int64) (string, string) {
			for _, g := range allGoroutines() {
				if g.id != gid {
					continue
				}
				blocked := strings.HasPrefix(g.state, "sync.") || g.state == "chan receive" || g.state == "chan send" || g.state == "select" || g.state == "semacquire"
				if !blocked || !strings.Contains(g.stack, "github.com/ipld/go-storethehash/") {
					return "", ""
				}
				return g.state, repoPanicSite(g.stack)
			}
			return "", ""
		}
		for {
			time.Sleep(2 * time.Second)
			watchdog.mu.Lock()
			depth, gid, since, step, what := watchdog.depth, watchdog.gid, watchdog.since, watchdog.step, watchdog.what
			ev, cur := watchdog.ev, watchdog.curCase
			watchdog.mu.Unlock()
			if depth == 0 || time.Since(since) < 45*time.Second || ev == nil {
				continue
			}
			st1, site1 := blockedState(gid)
			if st1 == "" {
				continue
			}
			time.Sleep(3 * time.Second)
			watchdog.mu.Lock()
			same := watchdog.depth > 0 && watchdog.gid == gid && watchdog.since == since
			watchdog.mu.Unlock()
			st2, site2 := blockedState(gid)
			if !same || st2 != st1 || site2 != site1 {
				continue
			}
			v := viol("call-never-returns|"+what+"|"+site1, step, "a call into the store has not returned for %s; its goroutine is blocked in [%s] inside %s (deadlock)", time.Since(since).Round(time.Second), st1, site1)
			var c interface{}
			if cur != nil {
				c = cur()
			}
			ev.Report(v, c)
			ev.Write()
			fmt.Fprintf(os.Stderr, "hang watchdog: %v\n", v)
			os.Exit(3)
		}
	}()
}
