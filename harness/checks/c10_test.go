package checks

import (
	"bytes"
	"context"
	"encoding/binary"
	"encoding/hex"
	"fmt"
	"os"
	"path/filepath"
	"sort"
	"strings"
	"testing"

	"github.com/ipld/go-storethehash/store"
	"github.com/ipld/go-storethehash/store/vhook"
	"pgregory.net/rapid"
)

// LOp is one step of the history that shaped a legacy store.
type LOp struct {
	K    string `json:"k"` // put, rm, flush
	Key  int    `json:"key,omitempty"`
	VLen int    `json:"vlen,omitempty"`
}

// LegacyCase describes a store in the legacy formats and its conversion.
type LegacyCase struct {
	Bits     uint8     `json:"bits"`
	IdxSize  uint32    `json:"idx_size"`  // target index file size limit
	PrimSize uint32    `json:"prim_size"` // target primary file size limit
	Keys     []KeySpec `json:"keys"`
	Hist     []LOp     `json:"hist"`
	// FreeMode says, per superseded record (in order of supersession), what
	// the legacy store knew about it: 0 = pending entry in .free, 1 = already
	// marked deleted in the primary, 2 = nothing (entry lost).
	FreeMode []int `json:"free_mode"`
	NoFree   bool  `json:"no_free"`   // no .free file at all
	DropTail int   `json:"drop_tail"` // number of last primary records cut off (corrupted legacy primary)
	CutMid   bool  `json:"cut_mid"`   // additionally cut the then-last record in the middle
	Suffix   []Op  `json:"suffix"`
	Picks    []int `json:"picks"`
}

// LegacyReplay is a self-contained crash image of an interrupted upgrade.
type LegacyReplay struct {
	Cfg      Config            `json:"cfg"`
	Keys     []KeySpec         `json:"keys"`
	Model    map[string]string `json:"model_hex"`
	Point    string            `json:"point"`
	Torn     string            `json:"torn"`
	Image    map[string]string `json:"image_hex"`
	Suffix   []Op              `json:"suffix"`
	Dangling bool              `json:"dangling_entries"`
	Workload *LegacyCase       `json:"workload,omitempty"`
}

const c10Rule = "the harness writes legacy stores with its own encoder (version-2 single-file index = 4-byte header length, {2, bits}, size-prefixed record lists appended flush by flush so superseded lists remain; unversioned single-file multihash primary; optional .free with pending entries, records already marked deleted, lost entries) from a generated map history; optionally the legacy primary is cut at or inside a record (entries without primary data); target file-size limits from 1 byte to larger than the whole file; " +
	"oracle = OpenStore converts and then reads back exactly the reference map through the public API (keys whose data was cut read as absent, never as another key's bytes), no record that the legacy freelist names is live in the converted primary, an independent fsck of the converted files passes, a generated suffix behaves like the map; crash clause: the conversion runs under the crash recorder (named points in index chunking, primary chunking, freelist application, offset remapping + torn writes) and every captured image must open again and show the same contents. " +
	"non-trivial = conversion producing >=3 primary chunks and >=2 index chunks with >=1 freed record and >=1 bucket whose entries land in different chunks; distinct = distinct canonical JSON of the case / (image hash)"

func genLegacy(t *rapid.T) LegacyCase {
	var c LegacyCase
	c.Bits = []uint8{8, 9, 12, 16}[weighted(t, "bits", []int{6, 2, 2, 1})]
	sz := []uint32{1, 16, 33, 64, 100, 256, 1024, 65536, 0}
	c.IdxSize = sz[weighted(t, "idx", []int{2, 3, 3, 3, 3, 3, 2, 1, 1})]
	c.PrimSize = sz[weighted(t, "prim", []int{2, 3, 3, 3, 3, 3, 2, 1, 1})]
	cfg := Config{Primary: store.MultihashPrimary, Bits: c.Bits}
	c.Keys = genKeys(t, cfg, 2, 12)
	w := []int{rapid.IntRange(4, 10).Draw(t, "w_put"), rapid.IntRange(0, 3).Draw(t, "w_rm"), rapid.IntRange(0, 3).Draw(t, "w_flush")}
	c.Hist = rapid.SliceOfN(rapid.Custom(func(t *rapid.T) LOp {
		op := LOp{K: []string{"put", "rm", "flush"}[weighted(t, "kind", w)]}
		if op.K != "flush" {
			op.Key = rapid.IntRange(0, len(c.Keys)-1).Draw(t, "key")
		}
		if op.K == "put" {
			// Also records larger than the copy buffers of the conversion.
			op.VLen = []int{0, 1, 3, 8, 20, 40, 100, 1100, 3000, 70000}[weighted(t, "vlen", []int{4, 4, 6, 8, 8, 4, 2, 2, 1, 0})]
			if weighted(t, "hugevalue", []int{200, 1}) == 1 {
				op.VLen = 70000
			}
		}
		return op
	}), 2, 40).Draw(t, "hist")
	c.FreeMode = rapid.SliceOfN(rapid.IntRange(0, 2), 8, 8).Draw(t, "freemode")
	c.NoFree = weighted(t, "nofree", []int{4, 1}) == 1
	if weighted(t, "drop", []int{4, 1}) == 1 {
		c.DropTail = rapid.IntRange(1, 3).Draw(t, "droptail")
		c.CutMid = rapid.Bool().Draw(t, "cutmid")
	}
	kinds := []string{opPut, opRePut, opGet, opRemove, opFlush, opCheckAll, opPGC, opIGC, opReopen}
	m := genMix(t, kinds, []int{6, 1, 1, 3, 2, 1, 2, 1, 2})
	c.Suffix = genOps(t, m, len(c.Keys), cfg, 0, 10, false)
	c.Picks = rapid.SliceOfN(rapid.IntRange(0, 1<<20), 6, 6).Draw(t, "picks")
	return c
}

type legacyBuild struct {
	model      map[string][]byte // expected contents after conversion
	freed      int
	primRecs   int
	idxRecs    int
	multiChunk bool // some bucket's entries name records in different target chunks
	dangling   bool // the final index names records that were cut off the primary
	// freedPending: content (key || value) of the records that the freelist
	// file names -> how many such records; liveSame: how many further records
	// of the same content exist that are not freed (values repeat rarely).
	freedPending map[string]int
	liveSame     map[string]int
}

func le32(v uint32) []byte {
	b := make([]byte, 4)
	binary.LittleEndian.PutUint32(b, v)
	return b
}

func le64(v uint64) []byte {
	b := make([]byte, 8)
	binary.LittleEndian.PutUint64(b, v)
	return b
}

// writeLegacy materialises the legacy store in dir.
func writeLegacy(dir string, c LegacyCase) legacyBuild {
	type rec struct {
		off, size uint64 // offset of the size prefix, size field
		key       int
	}
	var prim []byte
	var recs []rec
	cur := map[int]int{}    // key -> index into recs
	val := map[int][]byte{} // key -> value
	var superseded []int    // indexes into recs, in order
	dirty := map[uint32]bool{}
	var idx []byte
	idx = append(idx, le32(2)...)
	idx = append(idx, 2, c.Bits)
	strip := int(c.Bits / 8)
	b := legacyBuild{model: map[string][]byte{}}
	flush := func() {
		var bs []uint32
		for bk := range dirty {
			bs = append(bs, bk)
		}
		sort.Slice(bs, func(i, j int) bool { return bs[i] < bs[j] })
		for _, bk := range bs {
			// Current keys of the bucket with their shortest distinguishing prefixes.
			var ks []int
			for k := range cur {
				if bucketOf(c.Keys[k].Digest, c.Bits) == bk {
					ks = append(ks, k)
				}
			}
			sort.Slice(ks, func(i, j int) bool {
				return bytes.Compare(c.Keys[ks[i]].Digest[strip:], c.Keys[ks[j]].Digest[strip:]) < 0
			})
			var list []byte
			for _, k := range ks {
				ik := c.Keys[k].Digest[strip:]
				l := 1
				for ; l < len(ik); l++ {
					unique := true
					for _, o := range ks {
						if o != k && bytes.HasPrefix(c.Keys[o].Digest[strip:], ik[:l]) {
							unique = false
							break
						}
					}
					if unique {
						break
					}
				}
				r := recs[cur[k]]
				list = append(list, le64(r.off)...)
				list = append(list, le32(uint32(r.size))...)
				list = append(list, byte(l))
				list = append(list, ik[:l]...)
			}
			idx = append(idx, le32(uint32(4+len(list)))...)
			idx = append(idx, le32(bk)...)
			idx = append(idx, list...)
			b.idxRecs++
		}
		dirty = map[uint32]bool{}
	}
	for i, op := range c.Hist {
		switch op.K {
		case "put":
			k := op.Key % len(c.Keys)
			key := c.Keys[k].Encode(store.MultihashPrimary, false)
			v := valueFor(i, op.VLen, false)
			if old, ok := cur[k]; ok {
				if bytes.Equal(val[k], v) {
					continue
				}
				superseded = append(superseded, old)
			}
			recs = append(recs, rec{uint64(len(prim)), uint64(len(key) + len(v)), k})
			prim = append(prim, le32(uint32(len(key)+len(v)))...)
			prim = append(prim, key...)
			prim = append(prim, v...)
			cur[k] = len(recs) - 1
			val[k] = v
			dirty[bucketOf(c.Keys[k].Digest, c.Bits)] = true
		case "rm":
			k := op.Key % len(c.Keys)
			if old, ok := cur[k]; ok {
				superseded = append(superseded, old)
				delete(cur, k)
				delete(val, k)
				dirty[bucketOf(c.Keys[k].Digest, c.Bits)] = true
			}
		case "flush":
			flush()
		}
	}
	flush()
	b.primRecs = len(recs)
	// Freed records.
	var free []byte
	for j, ri := range superseded {
		r := recs[ri]
		switch c.FreeMode[j%len(c.FreeMode)] {
		case 0:
			if !c.NoFree {
				free = append(free, le64(r.off)...)
				free = append(free, le32(uint32(r.size))...)
				b.freed++
			}
		case 1:
			binary.LittleEndian.PutUint32(prim[r.off:], uint32(r.size)|fsckDeleted)
			b.freed++
		}
	}
	// What the pending freelist entries name, by content.
	b.freedPending, b.liveSame = map[string]int{}, map[string]int{}
	pendingIdx := map[int]bool{}
	for j, ri := range superseded {
		if c.FreeMode[j%len(c.FreeMode)] == 0 && !c.NoFree {
			pendingIdx[ri] = true
		}
	}
	for ri, r := range recs {
		content := string(prim[r.off+4 : r.off+4+r.size])
		if pendingIdx[ri] {
			b.freedPending[content]++
		} else if u32(prim[r.off:])&fsckDeleted == 0 {
			b.liveSame[content]++
		}
	}
	// Corrupted legacy primary: cut records off the end.
	cutAt := uint64(len(prim))
	if c.DropTail > 0 && len(recs) > 0 {
		n := c.DropTail
		if n > len(recs) {
			n = len(recs)
		}
		cutAt = recs[len(recs)-n].off
		if c.CutMid && n < len(recs) {
			prev := recs[len(recs)-n-1]
			cutAt = prev.off + 4 + prev.size/2
		} else if c.CutMid {
			cutAt = recs[0].off + 2
		}
		prim = prim[:cutAt]
	}
	for k, ri := range cur {
		r := recs[ri]
		if r.off+4+r.size <= cutAt {
			b.model[string(c.Keys[k].Digest)] = val[k]
		} else {
			b.dangling = true
		}
	}
	// Would entries of one bucket land in different target chunks?
	P := effectiveSize(c.PrimSize)
	chunkOf := func(off uint64) int {
		// chunks are cut at record boundaries once the limit is reached
		ch, written := 0, uint64(0)
		for _, r := range recs {
			if r.off == off {
				return ch
			}
			written += 4 + r.size
			if written >= P {
				ch++
				written = 0
			}
		}
		return ch
	}
	perBucket := map[uint32]map[int]bool{}
	for k, ri := range cur {
		bk := bucketOf(c.Keys[k].Digest, c.Bits)
		if perBucket[bk] == nil {
			perBucket[bk] = map[int]bool{}
		}
		perBucket[bk][chunkOf(recs[ri].off)] = true
	}
	for _, chunks := range perBucket {
		if len(chunks) >= 2 {
			b.multiChunk = true
		}
	}
	must := func(err error) {
		if err != nil {
			panic(infraError{err})
		}
	}
	must(os.WriteFile(filepath.Join(dir, idxBase), idx, 0o644))
	must(os.WriteFile(filepath.Join(dir, dataBase), prim, 0o644))
	if !c.NoFree {
		must(os.WriteFile(filepath.Join(dir, idxBase+".free"), free, 0o644))
	}
	return b
}

func (c LegacyCase) cfg() Config {
	return Config{Primary: store.MultihashPrimary, Bits: c.Bits, IdxSize: c.IdxSize, PrimSize: c.PrimSize, FileCache: 8}
}

type legacyStats struct {
	primChunks, idxChunks int
	build                 legacyBuild
}

// checkConverted opens dir (converting or resuming the conversion), compares
// with the model, runs fsck and the suffix.
// freedStillLive scans the converted primary files: a record that the legacy
// freelist named must not be live there any more (the conversion applies the
// freelist before it splits the primary).
func freedStillLive(dir string, freedPending, liveSame map[string]int) string {
	if len(freedPending) == 0 {
		return ""
	}
	live := map[string]int{}
	for _, n := range numberedFiles(dir, dataBase) {
		data, err := os.ReadFile(filepath.Join(dir, fmt.Sprintf("%s.%d", dataBase, n)))
		if err != nil {
			continue
		}
		for pos := 0; pos+4 <= len(data); {
			sz := u32(data[pos:])
			size := int(sz &^ fsckDeleted)
			if pos+4+size > len(data) {
				break
			}
			if sz&fsckDeleted == 0 {
				live[string(data[pos+4:pos+4+size])]++
			}
			pos += 4 + size
		}
	}
	for content := range freedPending {
		if live[content] > liveSame[content] {
			return fmt.Sprintf("a record of %d bytes (%s...) that the legacy freelist names is still live after the conversion (%d live copies, %d of that content were never freed)", len(content), shortBytes([]byte(content)), live[content], liveSame[content])
		}
	}
	return ""
}

func checkConverted(dir string, cfg Config, keys []KeySpec, model map[string][]byte, suffix []Op, site string, dangling bool, rec *crashRecorder, freed ...map[string]int) (st legacyStats, v *Violation) {
	sub := &seqRunner{c: SeqCase{Cfg: cfg, Keys: keys, Ops: suffix}, dir: dir, model: map[string][]byte{}, everFlushed: map[string]bool{}}
	sub.stats.GCKinds = map[string]bool{}
	for k, val := range model {
		sub.model[k] = val
	}
	defer func() {
		if sub.s != nil {
			closeQuietly(sub.s)
		}
	}()
	v = guard(-1, "upgrade-open", func() *Violation {
		if rec != nil {
			rec.install()
			defer rec.uninstall()
		}
		s, err := openStore(dir, cfg)
		if err != nil {
			return viol("upgrade-open-fails|"+site+"|"+errClass(err), -1, "OpenStore on the legacy store failed: %v", err)
		}
		sub.s = s
		return nil
	})
	if v != nil {
		return st, v
	}
	st.primChunks = len(numberedFiles(dir, dataBase))
	st.idxChunks = len(numberedFiles(dir, idxBase))
	wrap := func(inner *Violation) *Violation {
		if inner == nil {
			return nil
		}
		clause := "upgrade-contents"
		if dangling {
			// The legacy index holds entries whose primary data was cut off;
			// their removal during conversion is a separate mechanism.
			clause = "upgrade-contents-dangling-entries"
		}
		return viol(clause+"|"+site+"|"+inner.Signature, inner.Step, "after conversion: %s", inner.Detail)
	}
	if v := guard(-1, "upgrade-read", func() *Violation {
		if v := sub.checkAll(-1, "converted"); v != nil {
			return v
		}
		return sub.checkIter(-1, "converted")
	}); v != nil {
		return st, wrap(v)
	}
	if len(freed) == 2 {
		if msg := freedStillLive(dir, freed[0], freed[1]); msg != "" {
			return st, wrap(viol("freed-record-still-live|converted|", -1, "%s", msg))
		}
	}
	// Independent consistency check of the converted files.
	if v := guard(-1, "upgrade-fsck", func() *Violation {
		if err := sub.s.Flush(); err != nil {
			return viol("flush-error|converted|"+errClass(err), -1, "Flush: %v", err)
		}
		live := sub.s.Index().VerifBuckets()
		tbl := make([]uint64, len(live))
		for i, p := range live {
			tbl[i] = uint64(p)
		}
		_, clause, detail := fsck(fsckInput{Dir: dir, Cfg: cfg, Live: tbl})
		if clause != "" {
			return viol("fsck|converted|"+clause, -1, "%s", detail)
		}
		return nil
	}); v != nil {
		return st, wrap(v)
	}
	for i, op := range suffix {
		i, op := i, op
		if v := guard(i, op.K, func() *Violation { return sub.step(i, op) }); v != nil {
			return st, wrap(v)
		}
	}
	n := len(suffix)
	return st, wrap(guard(n, "final", func() *Violation {
		if v := sub.checkAll(n, "final"); v != nil {
			return v
		}
		s := sub.s
		sub.s = nil
		if err := s.Close(); err != nil {
			return viol("close-error|final|"+errClass(err), n, "Close: %v", err)
		}
		return nil
	}))
}

func hexModelOf(m map[string][]byte) map[string]string {
	out := map[string]string{}
	for d, v := range m {
		out[hex.EncodeToString([]byte(d))] = hex.EncodeToString(v)
	}
	return out
}

func unhexModel(m map[string]string) map[string][]byte {
	out := map[string][]byte{}
	for d, v := range m {
		db, _ := hex.DecodeString(d)
		vb, _ := hex.DecodeString(v)
		out[string(db)] = vb
	}
	return out
}

func exploreLegacy(ev *Evidence, c LegacyCase, exhaustive bool, fatalf func(string, ...any)) {
	dir := newScratch("leg")
	defer os.RemoveAll(dir)
	build := writeLegacy(dir, c)
	cfg := c.cfg()
	rec := newCrashRecorder(dir)
	rec.curOp = 0
	rec.capture("legacy-store", true)
	st, v := checkConverted(dir, cfg, c.Keys, build.model, c.Suffix, "no-crash", build.dangling, rec, build.freedPending, build.liveSame)
	st.build = build
	nt := st.primChunks >= 3 && st.idxChunks >= 2 && build.freed >= 1 && build.multiChunk
	cl := []string{"conversion"}
	if c.DropTail > 0 {
		cl = append(cl, "legacy-primary-cut")
	}
	if build.freed > 0 {
		cl = append(cl, "freed-records")
	}
	if st.primChunks >= 3 {
		cl = append(cl, "primary-chunks>=3")
	}
	if st.idxChunks >= 2 {
		cl = append(cl, "index-chunks>=2")
	}
	if build.multiChunk {
		cl = append(cl, "bucket-spans-chunks")
	}
	ev.Record(c, nt, cl...)
	if v != nil {
		if ev.Report(v, c) {
			fatalf("%v", v)
		}
		return
	}
	// Crash clause: every image captured while the conversion was running.
	// Only the images of the conversion itself matter: stop at the first
	// quiescent point after the open (the recorder was active only then).
	var specs []*tornSpec
	for i := 0; i+1 < len(rec.snaps); i++ {
		spec, _, ok := rec.step(i)
		if !ok {
			ev.Class("crash:hook-gap "+rec.meta[i].Point+" -> "+rec.meta[i+1].Point, 1)
			continue
		}
		if spec != nil && spec.count() > 0 {
			specs = append(specs, spec)
		}
	}
	hm := hexModelOf(build.model)
	check := func(cs crashState) {
		wl := c
		rp := LegacyReplay{Cfg: cfg, Keys: c.Keys, Model: hm, Point: cs.Point, Torn: cs.Torn, Image: hexImage(cs.Image), Suffix: c.Suffix, Dangling: build.dangling, Workload: &wl}
		v := checkLegacyImage(rp)
		ev.Record(struct{ H string }{cs.Image.hash()}, nt, "crash:state", "crash:at:"+strings.SplitN(cs.Point, ".", 2)[0])
		if v != nil && ev.Report(v, rp) {
			fatalf("%v", v)
		}
	}
	// Cancellation clause: the conversion is interrupted by its context being
	// cancelled when the n-th named point is reached (the open then fails, or
	// not, if nothing looked at the context any more); a normal open
	// afterwards must complete it with the same result.
	cancelAt := func(n int) {
		dir2 := newScratch("legc")
		defer os.RemoveAll(dir2)
		rec.pointState(0).Image.writeTo(dir2)
		ctx, cancel := context.WithCancel(context.Background())
		defer cancel()
		count := 0
		point := ""
		vhook.SetHandler(func(name string) {
			count++
			if count == n {
				point = name
				cancel()
			}
		})
		var v *Violation
		func() {
			defer vhook.SetHandler(nil)
			v = guard(-1, "upgrade-cancelled", func() *Violation {
				s, err := store.OpenStore(ctx, cfg.Primary, filepath.Join(dir2, dataBase), filepath.Join(dir2, idxBase), cfg.Immutable, storeOptions(cfg)...)
				if err == nil {
					s.Close()
				}
				return nil
			})
		}()
		if v == nil && point != "" {
			_, v = checkConverted(dir2, cfg, c.Keys, build.model, c.Suffix, "cancelled@"+point, build.dangling, nil)
		}
		ev.Record(struct {
			H string
			N int
		}{rec.pointState(0).Image.hash(), n}, nt, "cancel:state", "cancel:at:"+strings.SplitN(point+".", ".", 2)[0])
		if v != nil {
			wl := c
			rp := LegacyReplay{Cfg: cfg, Keys: c.Keys, Model: hm, Point: fmt.Sprintf("cancel#%d@%s", n, point), Image: hexImage(rec.pointState(0).Image), Suffix: c.Suffix, Dangling: build.dangling, Workload: &wl}
			if ev.Report(v, rp) {
				fatalf("%v", v)
			}
		}
	}
	if exhaustive {
		stride := len(rec.snaps)/40 + 1
		for n := 1; n < len(rec.snaps); n += stride {
			cancelAt(n)
		}
	} else if len(c.Picks) > 0 && len(rec.snaps) > 1 {
		cancelAt(1 + c.Picks[0]%(len(rec.snaps)-1))
		cancelAt(1 + c.Picks[len(c.Picks)-1]%(len(rec.snaps)-1))
	}
	if exhaustive {
		for n := 0; n < len(rec.snaps); n++ {
			check(rec.pointState(n))
		}
		for _, spec := range specs {
			stride := 1
			if spec.count() > 48 {
				stride = spec.count()/48 + 1
			}
			for j := 0; j < spec.count(); j += stride {
				check(rec.tornState(spec, j))
			}
		}
		return
	}
	for j, p := range c.Picks {
		if j%3 != 2 || len(specs) == 0 {
			check(rec.pointState(p % len(rec.snaps)))
		} else {
			spec := specs[p%len(specs)]
			check(rec.tornState(spec, (p/7919)%spec.count()))
		}
	}
}

func checkLegacyImage(rp LegacyReplay) *Violation {
	dir := newScratch("legr")
	defer os.RemoveAll(dir)
	unhexImage(rp.Image).writeTo(dir)
	site := crashSite(RecoveryReplay{Point: rp.Point, Torn: rp.Torn})
	_, v := checkConverted(dir, rp.Cfg, rp.Keys, unhexModel(rp.Model), rp.Suffix, site, rp.Dangling, nil)
	return v
}

func TestC10(t *testing.T) {
	ev := newEvidence("C10", "exploration", c10Rule)
	defer ev.Write()
	if envReplay != "" {
		r := readReplayRaw(envReplay)
		if strings.Contains(string(r.Case), "image_hex") {
			var rp LegacyReplay
			readReplay(envReplay, &rp)
			v := checkLegacyImage(rp)
			ev.Record(rp, true)
			if v != nil {
				ev.Report(v, rp)
				t.Fatalf("replay: %v", v)
			}
			return
		}
		var c LegacyCase
		readReplay(envReplay, &c)
		exploreLegacy(ev, c, true, t.Fatalf)
		return
	}
	for _, f := range regressFiles("C10") {
		r := readReplayRaw(f)
		var c LegacyCase
		if strings.Contains(string(r.Case), "image_hex") {
			var rp LegacyReplay
			readReplay(f, &rp)
			if rp.Workload == nil {
				continue
			}
			c = *rp.Workload
		} else {
			readReplay(f, &c)
		}
		exploreLegacy(ev, c, true, func(f2 string, a ...any) { t.Fatalf("regression case "+f+": "+f2, a...) })
		ev.Class("regression-case", 1)
	}
	setRapidChecks(budget(3000, 1500))
	rapid.Check(t, func(rt *rapid.T) {
		if pastDeadline() {
			ev.Skip()
			return
		}
		exploreLegacy(ev, genLegacy(rt), thorough(), rt.Fatalf)
	})
	ev.finish(t)
}

var _ = fmt.Sprintf
