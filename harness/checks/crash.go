package checks

import (
	"bytes"
	"encoding/hex"
	"fmt"
	"os"
	"path/filepath"
	"sort"
	"strings"
	"syscall"

	"github.com/ipld/go-storethehash/store/vhook"
)

// Crash model: process crash. Every completed file-system call is durable,
// the call in flight may have been applied as a prefix (appends, rewrites) or
// not at all; user-space buffers are lost.

// snapFile is one file of a directory snapshot.
type snapFile struct {
	data  []byte
	inode uint64
}

type snapshot struct {
	files map[string]snapFile // relative path -> file; directories end in "/"
	hash  string
}

func takeSnapshot(root string) snapshot {
	s := snapshot{files: map[string]snapFile{}}
	filepath.Walk(root, func(p string, fi os.FileInfo, err error) error {
		if err != nil {
			return nil
		}
		rel, _ := filepath.Rel(root, p)
		if rel == "." {
			return nil
		}
		var ino uint64
		if st, ok := fi.Sys().(*syscall.Stat_t); ok {
			ino = st.Ino
		}
		if fi.IsDir() {
			s.files[rel+"/"] = snapFile{nil, ino}
			return nil
		}
		data, err := os.ReadFile(p)
		if err != nil {
			return nil
		}
		s.files[rel] = snapFile{data, ino}
		return nil
	})
	s.hash = s.image().hash()
	return s
}

func (s snapshot) image() dirImage {
	img := dirImage{}
	for k, f := range s.files {
		img[k] = f.data
	}
	return img
}

// expectation: the process died while operation Op was in progress (or just
// done) and everything acknowledged up to operation DurOp was covered by a
// completed Flush/Close (-1: nothing).
type expectation struct {
	Op    int `json:"op"`
	DurOp int `json:"dur_op"`
}

// crashState is one disk state the process may die in. The same bytes can be
// on disk at several instants; the recovered store must satisfy the
// expectation of each of them.
type crashState struct {
	Expect []expectation
	Point  string // named point at which the base snapshot was taken
	Torn   string // "" or a description of the partially applied step
	Quiet  bool   // taken between operations
	Image  dirImage
}

// crashRecorder captures the directory at every named point.
type crashRecorder struct {
	dir    string
	curOp  int
	durOp  int
	snaps  []snapshot
	meta   []crashState // parallel to snaps (Image filled lazily)
	gaps   map[string]int
	points int
}

func newCrashRecorder(dir string) *crashRecorder {
	return &crashRecorder{dir: dir, durOp: -1, curOp: -1, gaps: map[string]int{}}
}

// flushDonePoints mark the completion of a Flush or Close: everything
// acknowledged before is durable from here on.
var flushDonePoints = map[string]bool{"flush.noticed": true, "flush.noWork": true, "close.freelistClosed": true}

func (cr *crashRecorder) capture(point string, quiet bool) {
	cr.points++
	if flushDonePoints[point] {
		cr.durOp = cr.curOp
	}
	s := takeSnapshot(cr.dir)
	ex := expectation{cr.curOp, cr.durOp}
	if n := len(cr.snaps); n > 0 && cr.snaps[n-1].hash == s.hash {
		m := &cr.meta[n-1]
		if m.Expect[len(m.Expect)-1] != ex {
			m.Expect = append(m.Expect, ex)
		}
		if quiet {
			m.Quiet = true
		}
		return
	}
	cr.snaps = append(cr.snaps, s)
	cr.meta = append(cr.meta, crashState{Expect: []expectation{ex}, Point: point, Quiet: quiet})
}

func (cr *crashRecorder) install() {
	vhook.SetHandler(func(name string) { cr.capture(name, false) })
}

func (cr *crashRecorder) uninstall() { vhook.SetHandler(nil) }

// pointState returns the i-th captured state.
func (cr *crashRecorder) pointState(i int) crashState {
	st := cr.meta[i]
	st.Image = cr.snaps[i].image()
	return st
}

// tornSpec describes the states between two consecutive snapshots.
type tornSpec struct {
	base   int    // index of the snapshot the step starts from
	file   string // file being written
	keep   []byte // content before the written region
	region []byte // bytes being written
	tail   []byte // content after the written region (in-place writes)
	create bool   // the file did not exist before
	rewrit bool   // the file was truncated first (rewrite in place)
}

// steps classifies the difference between snapshot i and i+1. It returns the
// torn-write description if the step is a single write, and ok=false if the
// difference is more than one file-system step (a hook gap).
func (cr *crashRecorder) step(i int) (spec *tornSpec, atomic bool, ok bool) {
	a, b := cr.snaps[i].files, cr.snaps[i+1].files
	var changed []string
	for k, fb := range b {
		fa, in := a[k]
		if !in || !bytes.Equal(fa.data, fb.data) {
			changed = append(changed, k)
		}
	}
	var removed []string
	for k := range a {
		if _, in := b[k]; !in {
			removed = append(removed, k)
		}
	}
	sort.Strings(changed)
	sort.Strings(removed)
	isDir := func(k string) bool { return strings.HasSuffix(k, "/") }
	// Renames: same inode and content under another name.
	if len(removed) >= 1 && len(changed) >= 1 {
		ren := 0
		for _, r := range removed {
			for _, c := range changed {
				if a[r].inode == b[c].inode && bytes.Equal(a[r].data, b[c].data) {
					ren++
				}
			}
		}
		if ren == 1 && len(removed) == 1 && len(changed) == 1 {
			return nil, true, true
		}
	}
	if len(changed) == 0 && len(removed) == 1 {
		return nil, true, true // unlink / rmdir
	}
	if len(changed) == 0 && len(removed) > 1 {
		// RemoveAll of a directory tree: individual unlinks of files that
		// nothing reads any more; treat the end points only.
		allUnder := true
		for _, r := range removed {
			if !strings.Contains(r, "/") {
				allUnder = false
			}
		}
		return nil, true, allUnder
	}
	if len(removed) != 0 || len(changed) != 1 {
		return nil, false, false
	}
	k := changed[0]
	if isDir(k) {
		return nil, true, true // mkdir
	}
	fb := b[k]
	fa, existed := a[k]
	switch {
	case !existed:
		if len(fb.data) == 0 {
			return nil, true, true // create
		}
		return &tornSpec{base: i, file: k, region: fb.data, create: true}, false, true
	case fa.inode != fb.inode:
		return nil, true, true // replaced by rename over it
	case len(fb.data) < len(fa.data) && bytes.HasPrefix(fa.data, fb.data):
		return nil, true, true // truncate
	case bytes.HasPrefix(fb.data, fa.data):
		return &tornSpec{base: i, file: k, keep: fa.data, region: fb.data[len(fa.data):]}, false, true // append
	case len(fa.data) == len(fb.data):
		lo, hi := 0, len(fa.data)
		for lo < hi && fa.data[lo] == fb.data[lo] {
			lo++
		}
		for hi > lo && fa.data[hi-1] == fb.data[hi-1] {
			hi--
		}
		if hi-lo <= 4 {
			return nil, true, true // single small positional write (GC mark)
		}
		return &tornSpec{base: i, file: k, keep: fa.data[:lo], region: fb.data[lo:hi], tail: fa.data[hi:]}, false, true
	default:
		// Rewritten in place: truncate + write.
		return &tornSpec{base: i, file: k, region: fb.data, rewrit: true}, false, true
	}
}

// tornCount returns how many partial states a write has.
func (t *tornSpec) count() int {
	n := len(t.region) - 1
	if t.create || t.rewrit {
		n++ // the empty file
	}
	if n < 0 {
		n = 0
	}
	return n
}

// tornState builds the j-th partial state (0 <= j < count()).
func (cr *crashRecorder) tornState(t *tornSpec, j int) crashState {
	// The write happens after the last instant the base state was seen and
	// belongs to the operation in progress when the next state was first seen.
	bs, nx := cr.meta[t.base], cr.meta[t.base+1]
	st := crashState{Expect: []expectation{{nx.Expect[0].Op, bs.Expect[len(bs.Expect)-1].DurOp}}}
	img := cr.snaps[t.base].image()
	n := j + 1
	if t.create || t.rewrit {
		n = j
	}
	var content []byte
	content = append(content, t.keep...)
	content = append(content, t.region[:n]...)
	if t.tail != nil {
		// In-place write: bytes not yet overwritten keep their old value.
		old := cr.snaps[t.base].files[t.file].data
		content = append(content, old[len(t.keep)+n:]...)
	}
	img[t.file] = content
	st.Image = img
	kind := "append"
	if t.create {
		kind = "create"
	} else if t.rewrit {
		kind = "rewrite"
	} else if t.tail != nil {
		kind = "overwrite"
	}
	st.Torn = fmt.Sprintf("%s %s %d/%d", kind, tornFileClass(t.file), n, len(t.region))
	st.Point = nx.Point
	return st
}

// tornFileClass maps a file name to its role, for signatures.
func tornFileClass(name string) string {
	base := filepath.Base(name)
	switch {
	case strings.HasSuffix(base, ".info"):
		return strings.TrimSuffix(base, ".info") + "-header"
	case strings.HasSuffix(base, ".buckets") || strings.HasSuffix(base, ".buckets.tmp"):
		return "bucket-snapshot"
	case strings.Contains(base, ".free"):
		return "freelist"
	case strings.HasPrefix(base, idxBase):
		return "index-file"
	case strings.HasPrefix(base, dataBase):
		return "primary-file"
	}
	return "other"
}

func hexImage(img dirImage) map[string]string {
	out := map[string]string{}
	for k, v := range img {
		out[k] = hex.EncodeToString(v)
	}
	return out
}

func unhexImage(m map[string]string) dirImage {
	out := dirImage{}
	for k, v := range m {
		b, err := hex.DecodeString(v)
		if err != nil {
			panic(infraError{err})
		}
		if strings.HasSuffix(k, "/") {
			out[k] = nil
		} else {
			out[k] = b
		}
	}
	return out
}
