#!/bin/sh
# Builds the check binary once (plain and -race) so that the Go build cache is
# warm; every check invocation rebuilds incrementally from /repo's current tree.
set -e
cd "$(dirname "$0")/../harness"
GO=/root/go/pkg/mod/golang.org/toolchain@v0.0.1-go1.25.0.linux-amd64/bin/go
export GOFLAGS=-mod=mod GOPROXY=off
if [ -x "$GO" ]; then
  export GOTOOLCHAIN=local GOSUMDB=off
else
  GO=go
  export GOTOOLCHAIN=auto
fi
OUT=$(mktemp -d)
trap 'rm -rf "$OUT"' EXIT
"$GO" test -c -tags verif -o "$OUT/checks.test" ./checks
"$GO" test -c -race -tags verif -o "$OUT/checks.race.test" ./checks
python3 -c 'import json,sys; json.load(open("../MANIFEST.json")); json.load(open("../known_findings.json"))'
echo "setup ok"
