#!/usr/bin/env python3
"""Driver for the go-storethehash property checks.

usage: check <ID> quick|thorough          run a check, write evidence/<ID>.json
       check <ID> --replay <file>         re-run one saved failing case

exit 0: property held on everything explored (known findings are listed as
        KNOWN-FINDING lines); exit 1: VIOLATION line(s) printed;
exit 2: infrastructure trouble (build failure, worker death, hard timeout).
Stdlib only.
"""
import hashlib
import json
import os
import re
import shutil
import signal
import subprocess
import sys
import tempfile
import time

VERIF = os.path.dirname(os.path.dirname(os.path.abspath(__file__)))
HARNESS = os.environ.get("VERIF_HARNESS") or os.path.join(VERIF, "harness")  # VERIF_HARNESS: a frozen copy of the harness sources (sensitivity runs)
REPO = os.environ.get("VERIF_REPO", "/repo")
GO125 = "/root/go/pkg/mod/golang.org/toolchain@v0.0.1-go1.25.0.linux-amd64/bin/go"
NCPU = os.cpu_count() or 4
REPLAYS = os.environ.get("VERIF_REPLAY_DIR", os.path.join(VERIF, "replays"))

# per property: test name, level, quick (shards, soft budget s), thorough (shards, soft budget s), race build
CHECKS = {
    "C01": dict(test="TestC01", level="exploration", quick=(4, 150), thorough=(16, 900)),
    "C02": dict(test="TestC02", level="exploration", quick=(4, 150), thorough=(16, 900)),
    "C03": dict(test="TestC03", level="fault_enumeration", quick=(4, 200), thorough=(16, 1200)),
    "C04": dict(test="TestC04", level="exploration", quick=(4, 150), thorough=(16, 900)),
    "C05": dict(test="TestC05", level="exploration", quick=(4, 200), thorough=(16, 900)),
    "C06": dict(test="TestC06", level="exploration", quick=(4, 200), thorough=(16, 900)),
    "C07": dict(test="TestC07", level="exploration", quick=(4, 150), thorough=(16, 900)),
    "C08": dict(test="TestC08", level="exploration", quick=(4, 150), thorough=(16, 900)),
    "C09": dict(test="TestC09", level="exploration", quick=(4, 200), thorough=(16, 900)),
    "C10": dict(test="TestC10", level="exploration", quick=(4, 200), thorough=(16, 900)),
    "C11": dict(test="TestC11", level="exploration", quick=(4, 150), thorough=(16, 900)),
    "C12": dict(test="TestC12", level="exploration", quick=(4, 200), thorough=(16, 900)),
    "C13": dict(test="TestC13", level="exploration", quick=(4, 150), thorough=(16, 900)),
    "C14": dict(test="TestC14", level="exploration", quick=(4, 150), thorough=(16, 900)),
    "C15": dict(test="TestC15", level="exploration", quick=(4, 150), thorough=(16, 900)),
    "C16": dict(test="TestC16", level="exploration", quick=(4, 240), thorough=(16, 900), race=True),
    "C17": dict(test="TestC17", level="exploration", quick=(4, 200), thorough=(16, 900)),
}


def go_env():
    env = dict(os.environ)
    env.update(GOFLAGS="-mod=mod", GOPROXY="off", GOLOG_LOG_LEVEL="fatal")
    if os.path.exists(GO125):
        env.update(GOTOOLCHAIN="local", GOSUMDB="off")
        return GO125, env
    # Fall back to the toolchain switch of the default go command.
    env.update(GOTOOLCHAIN="auto")
    env.pop("GOSUMDB", None)
    return "go", env


def shard_seed(seed, shard):
    h = hashlib.sha256(("%d/%d" % (seed, shard)).encode()).digest()
    v = int.from_bytes(h[:7], "big")
    return v or 1


def build(prop, spec, workdir):
    go, env = go_env()
    # go.sum of the harness = go.sum of the repository + the harness' own deps.
    binpath = os.path.join(workdir, "checks.test")
    cmd = [go, "test", "-c", "-tags", "verif", "-o", binpath]
    if os.path.realpath(REPO) != "/repo":
        # Sensitivity runs against a scratch copy of the repository: same
        # harness sources, alternative module file with another replace target.
        mod = open(os.path.join(HARNESS, "go.mod")).read().replace("=> /repo", "=> " + os.path.realpath(REPO))
        modfile = os.path.join(workdir, "alt.mod")
        open(modfile, "w").write(mod)
        shutil.copy(os.path.join(HARNESS, "go.sum"), os.path.join(workdir, "alt.sum"))
        cmd.append("-modfile=" + modfile)
    if spec.get("race"):
        cmd.append("-race")
    cmd.append("./checks")
    p = subprocess.run(cmd, cwd=HARNESS, env=env, stdout=subprocess.PIPE, stderr=subprocess.STDOUT, text=True)
    if p.returncode != 0:
        print("BUILD FAILED (infrastructure, not a violation):")
        print(p.stdout[-4000:])
        sys.exit(2)
    return binpath, env


def merge(prop, spec, tier, seed, results, wall, outputs):
    ev_path = os.path.join(os.environ.get("VERIF_EVIDENCE_DIR", os.path.join(VERIF, "evidence")), prop + ".json")
    nt = set()
    classes, excluded, extra = {}, {}, {}
    evaluations = skipped = nt_disjoint = 0
    samples, violations, assumptions = [], [], []
    rule = ""
    exhaustive = None
    level = spec["level"]
    for r in results:
        evaluations += r.get("evaluations", 0)
        skipped += r.get("skipped_after_deadline", 0)
        nt.update((r.get("nontrivial_hashes") or {}).keys())
        nt_disjoint += r.get("nontrivial_disjoint_count", 0)
        for k, v in (r.get("classes") or {}).items():
            classes[k] = classes.get(k, 0) + v
        for k, v in (r.get("excluded_known") or {}).items():
            excluded[k] = excluded.get(k, 0) + v
        for k, v in (r.get("extra") or {}).items():
            if isinstance(v, (int, float)) and not isinstance(v, bool) and k != "wall_s":
                extra[k] = extra.get(k, 0) + v
            elif k != "wall_s":
                extra.setdefault(k, v)
        for s in r.get("samples") or []:
            if len(samples) < 3:
                samples.append(s)
        violations.extend(r.get("violations") or [])
        rule = r.get("rule") or rule
        level = r.get("level") or level
        for a in r.get("assumptions") or []:
            if a not in assumptions:
                assumptions.append(a)
        if "exhaustive" in r:
            exhaustive = r["exhaustive"] if exhaustive is None else (exhaustive and r["exhaustive"])
    new = [v for v in violations if not v.get("known")]
    known = [v for v in violations if v.get("known")]
    cov = dict(evaluations=evaluations, distinct_nontrivial=len(nt) + nt_disjoint, rule=rule, samples=samples,
               classes=classes, excluded_known=excluded, skipped_after_deadline=skipped,
               shards=len(results))
    cov.update(extra)
    if exhaustive:
        cov["exhaustive"] = True
    if known:
        cov["known_findings_hit"] = sorted({v["known"] for v in known})
    doc = dict(property_id=prop, tier=tier, seed=seed, level=level, coverage=cov,
               assumptions=assumptions, wall_s=round(wall, 2), violations=len(new))
    os.makedirs(os.path.dirname(ev_path), exist_ok=True)
    tmp = ev_path + ".tmp.%d" % os.getpid()
    with open(tmp, "w") as f:
        json.dump(doc, f, indent=1, sort_keys=True)
        f.write("\n")
    os.replace(tmp, ev_path)
    return new, known, cov


def known_what(prop):
    path = os.path.join(VERIF, "known_findings.json")
    out = {}
    try:
        for k in json.load(open(path)).get("findings", []):
            if k.get("property") == prop and k.get("status") == "open":
                out[k["id"]] = k.get("what", "")
    except FileNotFoundError:
        pass
    return out


REPO_PANIC = re.compile(r"^(panic:|fatal error:)", re.M)


def run_check(prop, tier, replay=None):
    spec = CHECKS[prop]
    seed = int(os.environ.get("VERIF_SEED", "1") or "1")
    shards, soft = spec[tier] if not replay else (1, 600)
    shards = int(os.environ.get("VERIF_SHARDS_OVERRIDE", shards))
    shards = max(1, min(shards, NCPU))
    soft = int(float(os.environ.get("VERIF_BUDGET_S", soft)))
    scratch_base = "/dev/shm" if os.path.isdir("/dev/shm") and os.access("/dev/shm", os.W_OK) else tempfile.gettempdir()
    workdir = tempfile.mkdtemp(prefix="vfdrv-%s-" % prop, dir=scratch_base)
    t0 = time.time()
    try:
        binpath, env = build(prop, spec, workdir)
        build_s = time.time() - t0
        deadline = int(time.time() + soft)
        hard = soft * 3 + 120
        procs = []
        for sh in range(shards):
            e = dict(env)
            out = os.path.join(workdir, "res-%d.json" % sh)
            sdir = os.path.join(workdir, "scratch-%d" % sh)
            os.makedirs(sdir)
            e.update(VERIF_TIER=tier, VERIF_OUT=out, VERIF_SHARD=str(sh), VERIF_SHARDS=str(shards),
                     VERIF_SEED=str(seed), VERIF_DEADLINE=str(deadline), VERIF_SCRATCH=sdir,
                     VERIF_REPLAY_DIR=REPLAYS,
                     VERIF_KNOWN=os.path.join(VERIF, "known_findings.json"),
                     GORACE="halt_on_error=0 log_path=" + os.path.join(workdir, "race-%d" % sh))
            if replay:
                e["VERIF_REPLAY"] = os.path.abspath(replay)
            cmd = [binpath, "-test.run", "^%s$" % spec["test"], "-test.timeout", "0", "-test.count", "1",
                   "-rapid.seed", str(shard_seed(seed, sh)), "-rapid.nofailfile", "-rapid.shrinktime", "20s"]
            log = open(os.path.join(workdir, "log-%d.txt" % sh), "w")
            procs.append((sh, subprocess.Popen(cmd, cwd=workdir, env=e, stdout=log, stderr=subprocess.STDOUT), out, log))
        results, outputs, infra = [], [], []
        for sh, p, out, log in procs:
            try:
                rc = p.wait(timeout=max(1, hard - (time.time() - t0)))
            except subprocess.TimeoutExpired:
                # Ask the Go runtime for a goroutine dump before killing.
                p.send_signal(signal.SIGQUIT)
                try:
                    p.wait(timeout=10)
                except subprocess.TimeoutExpired:
                    p.kill()
                    p.wait()
                rc = None
            log.close()
            text = open(log.name, errors="replace").read()
            outputs.append(text)
            res = None
            if os.path.exists(out):
                try:
                    res = json.load(open(out))
                except ValueError:
                    res = None
            if rc is None or (res is None and not (REPO_PANIC.search(text) and "go-storethehash" in text)):
                # Keep the output of a shard that hung or died for diagnosis.
                ip = os.path.join(REPLAYS, prop, "infra-%s-s%d-%d.log" % (tier, seed, sh))
                os.makedirs(os.path.dirname(ip), exist_ok=True)
                open(ip, "w").write(text[-200000:])
                infra.append("output of shard %d kept in %s" % (sh, ip))
            if rc is None:
                infra.append("shard %d exceeded the hard time limit of %ds" % (sh, hard))
            if res is None:
                if rc is not None and REPO_PANIC.search(text) and "go-storethehash" in text:
                    # The process died (runtime fatal error or a panic on one of
                    # the store's own goroutines) before it could write a result.
                    rp = os.path.join(REPLAYS, prop, "crash-%s-s%d-%d.txt" % (tier, seed, sh))
                    os.makedirs(os.path.dirname(rp), exist_ok=True)
                    open(rp, "w").write(text[-30000:])
                    m = re.search(r"^(panic:|fatal error:)[^\n]*", text, re.M)
                    results.append(dict(evaluations=0, violations=[dict(property=prop, signature="process-died|" + (m.group(0)[:80] if m else "?"),
                                        detail="the test process died inside module code: " + (m.group(0) if m else ""), replay=rp)]))
                elif rc is not None:
                    infra.append("shard %d exited with %s without a result file" % (sh, rc))
                continue
            results.append(res)
            new = [v for v in res.get("violations") or [] if not v.get("known")]
            if rc not in (0, None) and not new:
                # The test binary failed for a reason that is not a recorded violation.
                if REPO_PANIC.search(text) and "go-storethehash" in text:
                    # An escaped panic on one of the store's own goroutines.
                    rp = os.path.join(REPLAYS, prop, "crash-%s-s%d-%d.txt" % (tier, seed, sh))
                    os.makedirs(os.path.dirname(rp), exist_ok=True)
                    open(rp, "w").write(text[-20000:])
                    res["violations"] = (res.get("violations") or []) + [dict(property=prop, signature="process-panic", detail="test process died with a panic in module frames", replay=rp)]
                else:
                    infra.append("shard %d failed (rc=%s) without recording a violation" % (sh, rc))
        wall = time.time() - t0
        if not results:
            print("\n".join(infra))
            for o in outputs[:1]:
                print(o[-3000:])
            return 2
        if replay:
            # A replay is not a run of the check: keep the committed evidence.
            os.environ["VERIF_EVIDENCE_DIR"] = os.path.join(REPLAYS, "evidence-of-replays")
        new, known, cov = merge(prop, spec, tier if not replay else "quick", seed, results, wall, outputs)
        whats = known_what(prop)
        seen = set()
        for v in known:
            if v["known"] in seen:
                continue
            seen.add(v["known"])
            print("KNOWN-FINDING: property=%s %s: %s (example: %s)" % (prop, v["known"], whats.get(v["known"], v["signature"]), v["replay"]))
        print("%s %s: %d evaluations, %d distinct non-trivial, %d shard(s), build %.0fs, wall %.0fs%s" % (
            prop, tier, cov["evaluations"], cov["distinct_nontrivial"], len(results), build_s, wall,
            (", %d cases skipped after the soft budget" % cov["skipped_after_deadline"]) if cov["skipped_after_deadline"] else ""))
        if new:
            seenp = set()
            for v in new:
                if v["replay"] in seenp:
                    continue
                seenp.add(v["replay"])
                print("VIOLATION property=%s replay=%s" % (prop, v["replay"]))
                print("  signature: %s" % v["signature"])
                print("  detail: %s" % v["detail"][:600])
            return 1
        if infra:
            print("\n".join(infra))
            for o in outputs:
                if "FAIL" in o or "panic" in o:
                    print(o[-3000:])
                    break
            return 2
        return 0
    finally:
        shutil.rmtree(workdir, ignore_errors=True)


def main():
    if len(sys.argv) < 3 or sys.argv[1] not in CHECKS:
        print(__doc__)
        return 2
    prop = sys.argv[1]
    if sys.argv[2] == "--replay":
        return run_check(prop, "quick", replay=sys.argv[3])
    if sys.argv[2] not in ("quick", "thorough"):
        print(__doc__)
        return 2
    return run_check(prop, sys.argv[2])


if __name__ == "__main__":
    sys.exit(main())
